from checks import pipeseq as ps
from checks import C06

CLAIM = {
    "text": "Bounded model checking of real pipes (idem, skip, setflowdef, probe_uref, null, queue sink + queue source, aggregate [through C14's harness: units handed downstream are neither touched nor delivered again]; upipe_helper_urefcount / helper_output / "
            "helper_void as expanded in each) over the real uref_std, udict_inline, ubuf_block_mem and umem_alloc managers with their "
            "reference counting ENABLED (pool depth 0: every free is a real free, so CBMC's memory model is an exact oracle): for every "
            "sequence of up to 3 API calls (set_flow_def x3 kinds, set_output S0/S1/NULL, input, flush, sink refusing/accepting) followed "
            "by release of the pipe, the sinks and the managers: no object is read or written after it was freed, nothing is freed twice "
            "(pointer checks), nothing obtained through the framework remains allocated (memory-leak check), the pipe returned every "
            "reference it took on its outputs (their counts are back to the harness's single reference and no output died early), and "
            "every manager is back to its creator's reference(s) before the creator releases it.",
    "note": "Trusted: as C04 (without VERIF_POOL_NO_MGR_REF and without static managers: ENV_COUNT_MGRS). Bounds: histories of <= 3 calls "
            "(quick) / 4 (thorough) + release; pool depth 0 only. The queue sink + queue source pair runs in harness/C06_queue.c (mock event loop, eventfd "
            "model, static managers, leak check): pseudo-output set / replaced / removed while buffers flow. Not covered: pool depth > 0 "
            "(recycling), pipes outside the list, concurrent release (C09).",
    "technique": "CBMC bounded model checking of real C pipes and managers with refcounting enabled; CBMC memory model "
                 "(use-after-free, double free, leak) as oracle + refcount assertions; complete enumeration of call sequences",
}


def build(tier):
    quick = tier == "quick"
    full = list(range(10))
    qs = []
    if quick:
        rej = [[0, 3, 8, 6], [3, 0, 8, 6, 6], [0, 3, 6, 8, 1, 6], [0, 3, 8, 6, 9, 6], [0, 3, 8, 6, 4, 6]]     # output refusing the flow definition
        plan = [(1, [[a] for a in full] + ps.seqs(full, 2) + ps.seqs([0, 3, 5, 6], 3, first=(0, 3)) + rej), (10, rej + [[0, 3, 6, 10, 6]]), (11, [[0, 3, 6, 6, 7], [0, 3, 6, 6], [0, 3, 6, 13, 6, 12]]),
                (2, ps.seqs([0, 3, 4, 5, 6, 7], 2, first=(0, 3, 6))),
                (4, ps.seqs([0, 3, 5, 6], 2, first=(0, 3))),
                (8, ps.seqs([0, 6, 7], 2))]
    else:
        rej = [[0, 3, 8, 6], [3, 0, 8, 6, 6], [0, 3, 6, 8, 1, 6], [0, 3, 8, 6, 9, 6], [0, 3, 8, 6, 4, 6]]
        plan = [(10, rej + ps.seqs([0, 3, 6, 8, 10], 4, first=(0, 3))), (11, [[0, 3] + t for t in ps.seqs([6, 7, 11, 12], 4, must=(6,))]),
                (1, rej + [[a] for a in full] + ps.seqs(full, 2) + ps.seqs(full, 3) + ps.seqs([0, 3, 4, 5, 6], 4, first=(0, 3), must=(6,))),
                (2, ps.seqs(full, 2) + ps.seqs([0, 3, 4, 5, 6, 7], 3)), (4, ps.seqs([0, 3, 4, 5, 6, 7], 3)),
                (5, ps.seqs([0, 3, 4, 5, 6, 7], 3)), (8, ps.seqs([0, 1, 6, 7], 3))]
    for pipe, sq in plan:
        for i, ops in enumerate(sq):
            qs.append(ps.query("C01", pipe, ops, timeout=280 if quick else 900, sample=(i % 40 == 3), replay=(i % 50 == 3), count_mgrs=True))
    # queue sink + queue source (harness/C06_queue.c: both pipes, mock event loop, eventfd model; static managers): the
    # pseudo-output of the sink is set / replaced / removed, buffers flow, everything is released, the loops run dry
    qsched = C06.schedules(C06.SCRIPTS["pseudo"], C06.BURSTS[:3], 1)[::2 if quick else 1] + [[10, 11, 10, 0, 2, 4], [10, 10, 0, 2, 7, 11, 4], [0, 2, 2, 10, 9, 11, 4]]
    if not quick:
        qsched += C06.schedules([10, 0, 2, 2, 11, 10, 4], C06.BURSTS[:3], 1) + C06.schedules(C06.SCRIPTS["stream"], C06.BURSTS[:3], 1)
    for i, ops in enumerate(qsched):
        qs.append(C06.q("queue_%s" % "-".join(map(str, ops)), ops, 1, timeout=280 if quick else 900, replay=(i % 10 == 1)))
    # aggregate (harness/C14_rechunk.c, leak check + pointer checks): the pipe keeps a pointer to the unit being built and hands
    # it downstream on overflow -- a unit given away must not be touched or delivered again
    from checks import C14
    aggq = [q for q in C14.build(tier)[0] if q.name.startswith("agg_")]
    qs += aggq if not quick else [q for q in aggq if any(x in q.name for x in ("cut2-3-1", "cut3-3", "cut1-203", "cut1-1-4", "cut4-2"))]
    seen = set()
    qs = [q for q in qs if not (q.name in seen or seen.add(q.name))]
    meta = {"bounds": {"pipes": sorted({ps.PIPES[p] for p, _ in plan} | {"queue sink + queue source", "aggregate"}), "sequence_length": 3 if quick else 4, "sequences": len(qs),
                       "pool_depth": 0},
            "exhaustive": True,
            "rule": "every call sequence of the stated length over the stated alphabet is one query, always followed by release of everything",
            "assumptions": [a for a in ps.COMMON_ASSUME if "VERIF_POOL_NO_MGR_REF" not in a] +
                           ["manager reference counting enabled (ENV_COUNT_MGRS), pool shim upool_depth0.h WITH manager references"],
            "outside": ["upipe_htons with counted managers (its copy path on unaligned buffers gave no verdict in 280 s; it is covered with static managers by C05)", "pool depth > 0 (structures recycled instead of freed)", "worker / transfer pipes", "allocation failure", "concurrent release (C09)"]}
    return qs, meta
