import itertools
from vlib.core import Query

SHIMS = ["uatomic_seq.h", "upool_depth0.h"]
UW = ["urefcount_release:3", "ubuf_block_mem_free:3", "ubuf_free:3", "ubuf_dup:3"]

CLAIM = {
    "text": "Bounded model checking of the real block buffer sharing code (ubuf_block.h write/dup/splice/slice/delete/insert/append/"
            "resize, ubuf_block_common.h, ubuf_block_mem.c dup/splice/single/free, ubuf_mem_common.h shared refcount) against a model of "
            "memory AREAS with owner counts: a family of up to 4 handles grows from one 4-octet block by every listed sequence of "
            "operations (dup, splice, split, delete creating a slice, insert, append, resize, free, write-map + store of a SYMBOLIC octet); after "
            "every operation every live handle reads back exactly its model octets (so a write through one handle never shows through "
            "another, and structural operations never modify shared bytes), and a writable mapping is granted iff the addressed "
            "segment's area has exactly one owner, refused with UBASE_ERR_BUSY otherwise. Use-after-free / double free of areas are CBMC "
            "pointer checks; everything is released at the end (memory-leak check). PICTURE AND SOUND buffers (real ubuf_pic_mem.c / "
            "ubuf_sound_mem.c / *_common.c, harness/C02_picsound.c): for a symbolic pixel / sample and symbolic values, a write mapping "
            "is granted while the area has a single owner, a duplicate reads the same content, write mappings through either handle are "
            "refused (UBASE_ERR_BUSY) while shared, cropping one handle (symbolic arguments) changes neither the size nor the content "
            "seen through the other, a copy owns its memory (write granted, original handles unaffected), and the last holder gets its "
            "write mapping back.",
    "note": "Trusted: CBMC 6.11; the 60-line area/segment model in the harness; uatomic_seq.h/upool_depth0.h, static managers. Operation "
            "kinds AND arguments are enumerated by the driver (they decide which areas are shared); payload and written octets are "
            "symbolic. Pictures: 4x4, two planes (4:2:0-like); sound: 6 samples, two s16 planes. Not covered: picture planes "
            "re-exported as blocks, pool depth > 0, concurrent sharing (C09).",
    "technique": "CBMC bounded model checking of real C against an ownership/area reference model; complete enumeration of valid operation "
                 "sequences from the stated alphabet, symbolic octets",
}

# (kind, handle, a, b)
CREATE = [(0, 0, 0, 0), (1, 0, 1, 2), (1, 0, 0, -1), (3, 0, 1, 1), (4, 0, 0, 0), (7, 0, 1, 0)]
WRITES = [(2, h, o, 0) for h in (0, 1, 2) for o in (0, 1, 3)]
OTHER = [(3, 0, 0, 1), (5, 0, 1, -1), (5, 0, 0, 2), (6, 0, 0, 0), (6, 1, 0, 0), (0, 1, 0, 0), (1, 1, 0, 1), (3, 1, 0, 1), (4, 1, 0, 0)]
NAMES = ["dup", "splice", "write", "delete", "append", "resize", "free", "insert", "split"]
SPLITS = [(8, 0, 1, 0), (8, 0, 2, 0), (8, 0, 5, 0)]


def valid(seq):
    """length/liveness simulation mirroring the harness assumptions (removes only vacuous sequences)"""
    lens = {0: 4}
    for (k, h, a, b) in seq:
        if h not in lens:
            return False
        L = lens[h]
        slot = min(i for i in range(5) if i not in lens)
        if k in (0, 1, 8) and slot > 3:
            return False
        if k == 0:
            lens[slot] = L
        elif k == 1:
            size = L - a if b == -1 else b
            if not (0 <= a < L and size >= 0 and a + size <= L):
                return False
            lens[slot] = size
        elif k == 2:
            if not (0 <= a < L):
                return False
        elif k == 3:
            if not (0 <= a < L and b >= 1 and a + b <= L):
                return False
            lens[h] = L - b
        elif k in (4, 7):
            if k == 7 and not (0 <= a < L):
                return False
            lens[h] = L + 2
        elif k == 5:
            if b == -1:
                if not (0 < a <= L):
                    return False
                lens[h] = L - a
            else:
                if not (a == 0 and 1 <= b < L):
                    return False
                lens[h] = b
        elif k == 8:
            if not (0 < a < L) or slot > 3:
                return False
            lens[slot] = L - a
            lens[h] = a
        elif k == 6:
            del lens[h]
    return True


def name(seq):
    return "_".join("%s%d%s" % (NAMES[k], h, ("@%d" % a) if k in (2, 7, 8) else (("@%d.%d" % (a, b)) if k in (1, 3, 5) else "")) for k, h, a, b in seq)


def build(tier):
    quick = tier == "quick"
    allops = CREATE + WRITES + OTHER
    seqs = [[o] for o in allops] + [list(t) for t in itertools.product(allops, repeat=2)]
    # sharing created first, anything in the middle, a write last
    seqs += [[c, m, w] for c in CREATE for m in (allops if not quick else CREATE + OTHER[:2]) for w in WRITES]
    if not quick:
        seqs += [[c, m1, m2, w] for c in CREATE for m1 in CREATE + OTHER for m2 in OTHER + WRITES[:3] for w in WRITES[:6]]
    # splits of multi-segment blocks followed by growth of the truncated head and accesses through both handles
    grow = [(4, 0, 0, 0), (7, 0, 1, 0)]
    after = [(4, 0, 0, 0), (4, 1, 0, 0), (2, 0, 0, 0), (2, 1, 0, 0), (6, 1, 0, 0), (6, 0, 0, 0)]
    seqs += [[sp] for sp in SPLITS] + [[g, sp] for g in grow for sp in SPLITS] + [[g, sp, x] for g in grow for sp in SPLITS for x in after]
    seqs += [[g, g2, sp, x, y] for g in grow for g2 in grow[:1] for sp in SPLITS for x in after[:2] for y in after[2:]]
    seqs = [s for s in seqs if valid(s)]
    seen, qs = set(), []
    for i, sq in enumerate(seqs):
        n = name(sq)
        if n in seen:
            continue
        seen.add(n)
        has_write = any(o[0] == 2 for o in sq)
        qs.append(Query(name=n, harness="C02_cow.c", defines=["OPS=" + ",".join(",".join(map(str, o)) for o in sq), "VERIF_POOL_NO_MGR_REF"],
                        shims=SHIMS, unwind=9, unwindset=UW, timeout=280 if quick else 900, leak=True, replay_witness=(i % 80 == 11),
                        sample={"operations": [dict(kind=NAMES[k], handle=h, a=a, b=b) for k, h, a, b in sq],
                                "symbolic": "payload octets of every area, octet stored by every granted write"} if i % 150 == 11 else None))
    # picture and sound buffers (harness/C02_picsound.c): write mapping granted iff single owner, dup / crop / copy isolation
    PS_UW = ["strcmp.0:16", "strlen.0:16", "strdup.0:20", "strcpy.0:20", "memcpy.0:40", "urefcount_release:3"]
    for mode in ("PIC", "SOUND"):
        for plane in (0, 1):
            for variant in (0, 1):
                qs.append(Query(name="%s_plane%d_%s" % (mode.lower(), plane, "crop" if variant == 0 else "copy"), harness="C02_picsound.c",
                                defines=["MODE_" + mode, "PLANE=%d" % plane, "VARIANT=%d" % variant, "VERIF_POOL_NO_MGR_REF"], shims=SHIMS, unwind=10,
                                unwindset=PS_UW, fp_restrict=True, timeout=400, leak=True, replay_witness=True,
                                sample={"buffer": "4x4 4:2:0 picture" if mode == "PIC" else "6-sample 2-channel s16 sound", "plane": plane,
                                        "scenario": "write / dup / refused writes / %s / free / write again" % ("crop (symbolic)" if variant == 0 else "copy + write"),
                                        "symbolic": "coordinates, values, crop arguments"} if plane == 0 else None))
    meta = {"bounds": {"handles": 4, "base_block_octets": 4, "sequence_length": 3 if quick else 4, "sequences": len(qs)},
            "exhaustive": True,
            "rule": "every valid sequence over the stated operation alphabet (kinds with concrete arguments) is one query; validity = the "
                    "harness's own assumptions hold (handle alive, arguments in range), checked by a length simulation in the driver and "
                    "by the witness twin",
            "assumptions": ["sequential shims uatomic_seq.h / upool_depth0.h (+VERIF_POOL_NO_MGR_REF), static managers",
                            "an 'owner' of an area is a ubuf segment referencing it (a block sliced by delete/insert owns its area twice, "
                            "and is therefore not writable: that is what UBUF_SINGLE tests)"],
            "outside": ["picture planes re-exported as blocks", "pictures / sounds larger than 4x4 / 6 samples", "more than 4 handles or 6 segments per handle", "pool depth > 0"]}
    return qs, meta
