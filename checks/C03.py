from vlib.core import Query

SHIMS = ["uatomic_seq.h", "upool_depth0.h"]
UW = ["mdl_insert.0:34", "mdl_insert.1:34", "mdl_delete.0:34", "mdl_slice.0:34", "mutate.0:34",
      "urefcount_release:3", "ubuf_block_mem_free:3", "ubuf_free:3", "ubuf_dup:3"]
KINDS = ["append", "insert", "delete", "truncate", "resize", "prepend", "splice", "split", "merge", "copy", "dup", "append_segmented"]
ACC = ["size_linear", "read", "peek", "extract", "iovec", "scan", "find", "compare", "equal", "match"]

CLAIM = {
    "text": "Bounded model checking of the real ubuf_block.h / ubuf_block_common.h / ubuf_block_mem.c against a byte-string model. "
            "(1) Mutators: from every listed concrete block shape (initial segmentations incl. empty segments, optionally transformed by "
            "a prefix of 1-2 real operations with concrete arguments: sliced segments, moved head, cached end pointer, emptied block...) "
            "ONE operation of each of the 12 kinds with SYMBOLIC int arguments in [-24,24] (negative offsets, -1 sizes, boundary and "
            "out-of-range values) and symbolic payload bytes: in-range forms must succeed, out-of-range forms must be refused, whatever "
            "returns an error leaves size and content unchanged, and after the operation the size equals the model's and two symbolic "
            "one-octet reads (the second on the offset cache left by the first) return the model's bytes; blocks returned by "
            "splice/split/copy/dup are checked the same way. (2) Access paths: size_linear, read, peek, extract, iovec_count/read, "
            "scan, compare, equal, match with symbolic arguments on every listed segmentation after a symbolic cache-priming read. "
            "(3) A freshly allocated block of symbolic size is one contiguous writable segment for several manager "
            "prepend/append/align settings. SAT verdict per case over all argument and byte values.",
    "note": "Trusted: CBMC 6.11, the byte-string model in the harness, uatomic_seq.h/upool_depth0.h (pool depth 0, pools not "
            "referencing their manager) and static managers in the CBMC build; native replays use the real headers. Not decided: two "
            "operations that BOTH have symbolic arguments (45 of 64 pairs gave no verdict in 280 s: the shape of the chain becomes "
            "symbolic), truncate/resize with a symbolic offset on chains of 4+ segments (no verdict in 40 min), splice with symbolic "
            "arguments (arguments are enumerated instead), ubuf_block_find (no verdict in 250 s / 4.7 GB; run as a non-fatal stretch "
            "query in the thorough tier). Buffers are not released in the CBMC build (lifetime is C01/C02).",
    "technique": "CBMC bounded model checking of real C with a byte-string reference model; case split on block shape / operation kind, "
                 "symbolic arguments and bytes; native ASan replay of counterexamples",
}

PREFIXES = [
    ("del_mid", [2, 1, 1]), ("del_head", [2, 0, 1]), ("trunc2", [3, 2, 0]), ("trunc0", [3, 0, 0]), ("split1", [7, 1, 0]),
    ("insert1", [1, 1, 0]), ("append", [0, 0, 0]), ("prepend2", [5, 2, 0]), ("resize1", [4, 1, -1]), ("merge", [8, 0, -1]),
    ("insert1_del02", [1, 1, 0, 2, 0, 2]), ("split1_append", [7, 1, 0, 0, 0, 0]), ("prepend1_del_mid", [5, 1, 0, 2, 1, 1]),
]
# prefixes that leave 4+ segments: truncate / resize / insert / delete / split with a symbolic offset do not finish on them
LONG_CHAIN = {"insert1", "append", "insert1_del02", "prepend1_del_mid"}
HEAVY_ON_LONG = {1, 2, 3, 4, 7}
QUICK_PREFIXES = {"del_mid", "trunc0", "split1", "prepend2", "merge", "split1_append"}


def mq(segs, ops, prepend=0, prime=False, timeout=280, extra=(), tag="", sample=None, replay=False, extra_unwind=0, stretch=False):
    name = "mut_seg%s_pre%d%s_%s%s" % ("-".join(map(str, segs)), prepend, "_primed" if prime else "",
                                       "_".join(KINDS[o] for o in ops), tag)
    defs = ["SEGS=" + ",".join(map(str, segs)), "OPS=" + ",".join(map(str, ops)), "MGR_PREPEND=%d" % prepend,
            "VERIF_POOL_NO_MGR_REF"] + list(extra)
    if prime:
        defs.append("PRIME")
    uw = len(segs) + 2 * len(ops) + 2 + extra_unwind
    return Query(name=name, harness="C03_block.c", defines=defs, unwind=uw, unwindset=UW, shims=SHIMS, timeout=timeout,
                 replay_witness=replay, sample=sample, stretch=stretch)


def build(tier):
    quick = tier == "quick"
    qs = []
    # --- (1a) one symbolic operation on fresh segmentations (offset cache primed by a symbolic read)
    segs1 = [[2, 1], [0, 2], [1, 0, 2]] if quick else [[4], [2, 2], [0, 3], [0, 2], [2, 1], [1, 0, 2], [1, 1, 1], [0, 0, 2]]
    for sg in segs1:
        total = sum(sg)
        for pre in ((3,) if quick else (0, 3)):
            for op in range(12):
                if op == 6:         # splice: arguments enumerated (all pairs around the block)
                    if quick and sg != segs1[0]:
                        continue
                    for off in range(-total - 1, total + 2):
                        for size in range(-1, total + 2):
                            qs.append(mq(sg, [op], pre, extra=["SPLICE_OFF=%d" % off, "SPLICE_SIZE=%d" % size, "WITNESS_ANY"],
                                         tag="_o%d_s%d" % (off, size), timeout=120))
                    continue
                qs.append(mq(sg, [op], pre, prime=True, replay=(op in (2, 5) and pre == 3), timeout=280 if quick else 900,
                             stretch=(not quick and sg in ([1, 1, 1], [0, 0, 2])),     # thorough-only 3-segment starts: near the cap under load
                             sample={"segments": sg, "manager_prepend": pre, "ops": [KINDS[op]],
                                     "arguments": "symbolic ints in [-24,24]", "bytes": "symbolic",
                                     "offset_cache": "primed by a symbolic read"}
                             if (op in (2, 5) and pre == 3 and sg == segs1[0]) else None))
    # --- (1b) concrete-argument prefix, then one symbolic operation
    segs2 = [[2, 1]] if quick else [[3], [2, 1], [1, 0, 2]]
    for sg in segs2:
        for pre in ((3,) if quick else (0, 3)):
            for pname, ptr in PREFIXES:
                if quick and pname not in QUICK_PREFIXES:
                    continue
                for op in range(12):
                    pdef = "PREFIX=" + ",".join(map(str, ptr))
                    if op == 6:
                        for (off, size) in ((0, -1), (1, 1), (-1, -1), (1, -1), (0, sum(sg) + 3)):
                            if quick and off != 1:
                                continue
                            qs.append(mq(sg, [op], pre, extra=[pdef, "SPLICE_OFF=%d" % off, "SPLICE_SIZE=%d" % size, "WITNESS_ANY"],
                                         tag="_o%d_s%d_after_%s" % (off, size, pname), timeout=120, extra_unwind=4))
                        continue
                    if pname in LONG_CHAIN and op in HEAVY_ON_LONG:
                        continue        # no verdict within 40 min (see CLAIM.note)
                    # a 3-segment start + a prefix that adds segments: chains of 5+ segments, decided only sometimes within the
                    # cap (timeouts, or CBMC's 4096-object limit): reported, not fatal
                    qs.append(mq(sg, [op], pre, extra=[pdef] + (["WITNESS_ANY"] if pname == "trunc0" else []),
                                 tag="_after_" + pname, timeout=280 if quick else 900, extra_unwind=4, stretch=(not quick and len(sg) >= 3),
                                 sample={"segments": sg, "manager_prepend": pre, "prefix (concrete arguments)": pname,
                                         "then": KINDS[op] + " with symbolic arguments + 2 symbolic read probes"}
                                 if (pname, op) in (("split1_append", 0), ("del_mid", 5)) else None))
    # --- (2) access paths
    segsA = [[2, 2], [1, 0, 2]] if quick else [[4], [2, 2], [0, 3], [1, 0, 2], [1, 1, 2], [2, 1, 1]]
    AUW = ["urefcount_release:3", "ubuf_free:3"]
    for sg in segsA:
        for acc in range(10):
            if acc == 6:
                continue
            smalls = [[2], [1, 1]] if acc == 7 else ([[sum(sg)], [1, sum(sg) - 1]] if acc == 8 else [None])
            for sm in smalls:
                defs = ["SEGS=" + ",".join(map(str, sg)), "ACC=%d" % acc]
                tag = ""
                if sm:
                    defs.append("SMALL_SEGS=" + ",".join(map(str, sm)))
                    tag = "_small" + "-".join(map(str, sm))
                qs.append(Query(name="acc_%s_seg%s%s" % (ACC[acc], "-".join(map(str, sg)), tag), harness="C03_access.c",
                                defines=defs, unwind=10, unwindset=AUW, shims=SHIMS, timeout=280 if quick else 900,
                                replay_witness=(sg == segsA[0]), witness=(sg != [0, 3]),   # an empty head segment makes some witnesses' shape unreachable
                                sample={"accessor": ACC[acc], "segments": sg, "arguments": "symbolic ints in [-8,8]",
                                        "offset_cache": "left anywhere by a symbolic priming read"}
                                if sg == segsA[0] and acc in (2, 5) else None))
    if not quick:
        for sg in ([1, 2], [3]):
            qs.append(Query(name="acc_find_seg%s_STRETCH" % "-".join(map(str, sg)), harness="C03_access.c",
                            defines=["SEGS=" + ",".join(map(str, sg)), "ACC=6", "START=0", "NO_PRIME"], unwind=10,
                            unwindset=AUW + ["memchr.0:4", "ubuf_block_scan.0:5", "ubuf_block_find_va.0:6", "ubuf_block_find_va.1:3",
                                             "ubuf_block_peek.0:4", "ubuf_block_get.0:5"],
                            shims=SHIMS, timeout=1500, stretch=True, witness=False))
    # --- (3) fresh allocation is one contiguous segment
    for (pre, app, al, alo) in ([(0, 0, 0, 0), (3, 2, 4, 1)] if quick else
                                [(0, 0, 0, 0), (3, 0, 0, 0), (3, 2, 4, 1), (0, 5, 8, -3), (7, 0, 16, 0)]):
        qs.append(Query(name="fresh_alloc_pre%d_app%d_align%d_%d" % (pre, app, al, alo), harness="C03_access.c",
                        defines=["SEGS=1", "ACC=10", "MGR_PREPEND=%d" % pre, "MGR_APPEND=%d" % app, "MGR_ALIGN=%d" % al,
                                 "MGR_ALIGN_OFFSET=%d" % alo], unwind=10, unwindset=AUW, shims=SHIMS, timeout=280,
                        sample={"fresh allocation": "symbolic size 0..8",
                                "manager": {"prepend": pre, "append": app, "align": al, "align_offset": alo}}))
    meta = {
        "bounds": {"initial_segmentations": segs1, "prefix_segmentations": segs2, "access_segmentations": segsA,
                   "prefixes": [p for p, _ in PREFIXES if not quick or p in QUICK_PREFIXES],
                   "symbolic_operations_per_query": 1, "argument_range": "[-24,24] mutators, [-8,8] accessors",
                   "helper_block_size": 2, "copy_merge": "skip >= -10, new_size <= 10",
                   "splice_arguments": "enumerated: every (offset, size) in [-L-1, L+1] x [-1, L+1]"},
        "exhaustive": False,
        "rule": "one solver query per (block shape, operation kind[, splice arguments]); shapes and kinds are enumerated by the "
                "driver, everything numeric is symbolic inside the query",
        "assumptions": ["argument classes: VALID must succeed, INVALID (documented form, out of range) must be refused, UNSPEC/boundary "
                        "forms may do either but an error leaves the block unchanged and a success matches the model operation",
                        "prepend(n) requires n >= 0 (asserted by the code); the n exposed octets have unspecified content",
                        "sequential shims uatomic_seq.h, upool_depth0.h (+VERIF_POOL_NO_MGR_REF), static managers (blk.h)",
                        "memchr modelled by a 6-line loop (CBMC has no model)"],
        "outside": ["two or more operations with symbolic arguments in one history", "chains of more than ~5 segments",
                    "blocks larger than 6 octets", "ubuf_block_find (stretch query only)", "uref_block_* wrappers", "map-mode managers"],
    }
    return qs, meta
