from vlib.core import Query
from checks import pipeseq as ps

PLAY_OPN = {0: "SUB0.set_flow_def(latency 0)", 1: "SUB0.set_flow_def(latency 5)", 2: "SUB1.set_flow_def(latency 9)", 3: "SUB1.set_flow_def(latency 2)",
            4: "input SUB0", 5: "input SUB1", 6: "set_output(SUB0,S0)", 7: "set_output(SUB1,S1)", 8: "S0 answers sink latency", 9: "S1 answers sink latency (low)"}


def play_query(ops, timeout, sample=False, replay=False):
    return Query(name="play_" + "-".join(map(str, ops)), harness="C04_play.c",
                 defines=["OPS=" + ",".join(map(str, ops)), "WITNESS_DELIVERED=0", "VERIF_POOL_NO_MGR_REF"], shims=ps.SHIMS,
                 unwind=max(10, len(ops) + 3), unwindset=[u for u in ps.UW if not u.startswith(("env_count", "probe_check"))] + ["order.0:62", "udict_cmp.0:8"],
                 fp_restrict=True, timeout=timeout, leak=True, replay_witness=replay,
                 sample={"pipe": "play (2 sub-pipes, 2 sinks)", "operations": [PLAY_OPN[o] for o in ops] + ["release"], "symbolic": "payload octets"} if sample else None)

CLAIM = {
    "text": "Bounded model checking of real linear pipes (idem, skip, htons, setflowdef, setattr, probe_uref, delay, match_attr, null, plus a pass-through pipe assembled in the harness from the real helper macros that rebuilds its flow definition the way upipe_audio_merge / upipe_play / upipe_sync do; "
            "upipe_helper_output / helper_urefcount / helper_void as expanded in each) under every listed sequence of set_flow_def "
            "(two valid definitions and an invalid one) / set_output (two sinks, NULL) / input / flush / sink-starts-rejecting / "
            "sink-accepts-again, then release. Online monitors in the recording probe and sinks assert: READY is the first non-log event, "
            "DEAD is thrown exactly once and is the last event, neither the probe nor an output is touched after it; a sink receives a buffer "
            "only after it has accepted the pipe's CURRENT flow definition (compared by definition string), again after every definition "
            "change and on every newly connected output; nothing is delivered to an output that refused the definition or to a pipe that is "
            "not the connected output. Payload octets and option values are symbolic in every query. "
            "PIPE WITH SUB-PIPES: the real upipe_play.c (helper_subpipe) with two sub-pipes and two sinks (harness/C04_play.c): the total "
            "latency stamped on every sub-pipe's flow definition changes when ANOTHER sub-pipe gets a larger latency or a sink answers "
            "the latency request; at every delivery the definition last accepted by the sink must equal the sub-pipe's current one "
            "(attribute by attribute); ready first / dead last for the three pipes.",
    "note": "Trusted: CBMC 6.11, harness probe/sinks/monitors (pipe_env.h, pipe_seq.c), fprestrict.py target sets (assertion-guarded), "
            "shims as listed in the evidence. Bounds: sequences of 4 (quick) / 5 (thorough) operations from the stated alphabets; "
            "3-octet single-segment buffers. Not covered: split / bin pipes and sub-pipe pipes other than upipe_play, pipes needing external libraries, "
            "ts_psi_join / ts_psi_split.",
    "technique": "CBMC bounded model checking of real C pipes with online protocol monitors; complete enumeration of operation sequences "
                 "within the stated alphabet/length, symbolic payloads",
}


def build(tier):
    quick = tier == "quick"
    qs = []
    pre = ([0, 3, 6], [3, 0, 6])        # connected and streaming: the output state is VALID when the tail starts
    tail1 = [[x, 6] for x in (0, 1, 2, 3, 4, 5, 7, 8, 9)]
    tail2 = [[x, y, 6] for x in (0, 1, 3, 4, 5, 8, 9) for y in (0, 1, 3, 4, 5, 8, 9)]
    if quick:
        plan = [(1, [p + t for p in pre for t in tail1] + [pre[0] + t for t in tail2] +
                    ps.seqs([0, 1, 3, 4, 6, 8], 3, first=(0, 3), last=(6,))),
                (2, [pre[0] + t for t in tail1] + ps.seqs([0, 1, 3, 5, 6, 8], 3, last=(6,), must=(3,))),
                (4, [pre[1] + t for t in tail1]),
                (10, [p + t for p in pre for t in ([10, 6], [10, 10, 6], [8, 10, 6], [10, 4, 6], [4, 10, 6], [1, 10, 6], [10, 9, 6])] + [[0, 10, 3, 6], [3, 10, 0, 6]])]
    else:
        full = ps.seqs([0, 1, 2, 3, 4, 5, 6, 8, 9], 4, first=(0, 3), must=(6,)) + \
            ps.seqs([0, 1, 3, 4, 5, 6, 8, 9], 5, first=(0,), last=(6,), must=(3,), min_count={6: 2})
        short = ps.seqs([0, 1, 2, 3, 4, 5, 6, 7, 8], 4, first=(0, 3), last=(6,), must=(0, 3))
        deep = [p + t for p in pre for t in tail1 + tail2]
        plan = [(1, full + deep)] + [(p, short + [q + t for q in pre for t in tail1]) for p in (2, 3, 4, 5, 6, 7, 9)] + \
            [(8, ps.seqs([0, 1, 2, 6, 7], 3, must=(6,))), (10, [p + [x, y, 6] for p in pre for x in (0, 1, 3, 4, 5, 6, 8, 9, 10) for y in (1, 4, 6, 8, 10)] + [[0, 10, 3, 6], [3, 10, 0, 6]])]
    for pipe, sq in plan:
        for i, ops in enumerate(sq):
            qs.append(ps.query("C04", pipe, ops, timeout=280 if quick else 900, sample=(i % 40 == 5), replay=(i % 60 == 5),
                               witness_delivered=0))
    # upipe_play: a pipe with sub-pipes whose flow definitions change because of what happens on ANOTHER sub-pipe or at a sink
    if quick:
        pl = [[0, 6, 4] + t for t in ps.seqs([1, 2, 3, 4, 5, 7, 8], 2, last=(4, 5))] + \
             [[0, 6, 4, 7, 2, 4, 5], [6, 0, 4, 8, 4], [0, 6, 4, 2, 4, 7, 5, 3, 5, 9, 4], [2, 7, 0, 6, 5, 4, 1, 5, 4], [6, 7, 0, 2, 4, 5, 8, 4, 5]]
    else:
        pl = [[0, 6, 4] + t for t in ps.seqs([1, 2, 3, 4, 5, 7, 8, 9], 3, last=(4, 5))] + [[6, 7, 0, 2] + t for t in ps.seqs([1, 3, 4, 5, 8, 9], 3, last=(4, 5))] + \
             [[0, 6, 4, 7, 2, 4, 5], [6, 0, 4, 8, 4], [0, 6, 4, 2, 4, 7, 5, 3, 5, 9, 4], [2, 7, 0, 6, 5, 4, 1, 5, 4]]
    for i, ops in enumerate(pl):
        qs.append(play_query(ops, 280 if quick else 900, sample=(i == 2), replay=(i % 8 == 2)))
    seen = set()
    qs = [q for q in qs if not (q.name in seen or seen.add(q.name))]
    meta = {"bounds": {"pipes": sorted({ps.PIPES[p] for p, _ in plan} | {"play (sub-pipes)"}), "sequence_length": "up to 6 (streaming prefix of 3 + every tail of 2-3 operations)",
                       "sequences": len(qs), "buffer_octets": 3},
            "exhaustive": True,
            "rule": "every operation sequence of the stated length over the stated alphabet (per pipe) is one query; exhaustive within that "
                    "enumeration; a query is non-trivial if the solver decided at least one verification condition",
            "assumptions": ps.COMMON_ASSUME,
            "outside": ["sequences longer than the bound", "split / bin pipes and other sub-pipe pipes (upipe_dup, helper_bin_output)",
                        "ts_psi_join / ts_psi_split", "pipes needing external libraries"]}
    return qs, meta
