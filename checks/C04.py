from checks import pipeseq as ps

CLAIM = {
    "text": "Bounded model checking of real linear pipes (idem, skip, htons, setflowdef, setattr, probe_uref, delay, match_attr, null, plus a pass-through pipe assembled in the harness from the real helper macros that rebuilds its flow definition the way upipe_audio_merge / upipe_play / upipe_sync do; "
            "upipe_helper_output / helper_urefcount / helper_void as expanded in each) under every listed sequence of set_flow_def "
            "(two valid definitions and an invalid one) / set_output (two sinks, NULL) / input / flush / sink-starts-rejecting / "
            "sink-accepts-again, then release. Online monitors in the recording probe and sinks assert: READY is the first non-log event, "
            "DEAD is thrown exactly once and is the last event, neither the probe nor an output is touched after it; a sink receives a buffer "
            "only after it has accepted the pipe's CURRENT flow definition (compared by definition string), again after every definition "
            "change and on every newly connected output; nothing is delivered to an output that refused the definition or to a pipe that is "
            "not the connected output. Payload octets and option values are symbolic in every query.",
    "note": "Trusted: CBMC 6.11, harness probe/sinks/monitors (pipe_env.h, pipe_seq.c), fprestrict.py target sets (assertion-guarded), "
            "shims as listed in the evidence. Bounds: sequences of 4 (quick) / 5 (thorough) operations from the stated alphabets; "
            "3-octet single-segment buffers. Not covered: split/bin/sub-pipes, pipes needing external libraries, ts_psi_join/ts_psi_split.",
    "technique": "CBMC bounded model checking of real C pipes with online protocol monitors; complete enumeration of operation sequences "
                 "within the stated alphabet/length, symbolic payloads",
}


def build(tier):
    quick = tier == "quick"
    qs = []
    pre = ([0, 3, 6], [3, 0, 6])        # connected and streaming: the output state is VALID when the tail starts
    tail1 = [[x, 6] for x in (0, 1, 2, 3, 4, 5, 7, 8, 9)]
    tail2 = [[x, y, 6] for x in (0, 1, 3, 4, 5, 8, 9) for y in (0, 1, 3, 4, 5, 8, 9)]
    if quick:
        plan = [(1, [p + t for p in pre for t in tail1] + [pre[0] + t for t in tail2] +
                    ps.seqs([0, 1, 3, 4, 6, 8], 3, first=(0, 3), last=(6,))),
                (2, [pre[0] + t for t in tail1] + ps.seqs([0, 1, 3, 5, 6, 8], 3, last=(6,), must=(3,))),
                (4, [pre[1] + t for t in tail1]),
                (10, [p + t for p in pre for t in ([10, 6], [10, 10, 6], [8, 10, 6], [10, 4, 6], [4, 10, 6], [1, 10, 6], [10, 9, 6])] + [[0, 10, 3, 6], [3, 10, 0, 6]])]
    else:
        full = ps.seqs([0, 1, 2, 3, 4, 5, 6, 8, 9], 4, first=(0, 3), must=(6,)) + \
            ps.seqs([0, 1, 3, 4, 5, 6, 8, 9], 5, first=(0,), last=(6,), must=(3,), min_count={6: 2})
        short = ps.seqs([0, 1, 2, 3, 4, 5, 6, 7, 8], 4, first=(0, 3), last=(6,), must=(0, 3))
        deep = [p + t for p in pre for t in tail1 + tail2]
        plan = [(1, full + deep)] + [(p, short + [q + t for q in pre for t in tail1]) for p in (2, 3, 4, 5, 6, 7, 9)] + \
            [(8, ps.seqs([0, 1, 2, 6, 7], 3, must=(6,))), (10, [p + [x, y, 6] for p in pre for x in (0, 1, 3, 4, 5, 6, 8, 9, 10) for y in (1, 4, 6, 8, 10)] + [[0, 10, 3, 6], [3, 10, 0, 6]])]
    for pipe, sq in plan:
        for i, ops in enumerate(sq):
            qs.append(ps.query("C04", pipe, ops, timeout=280 if quick else 900, sample=(i % 40 == 5), replay=(i % 60 == 5),
                               witness_delivered=0))
    seen = set()
    qs = [q for q in qs if not (q.name in seen or seen.add(q.name))]
    meta = {"bounds": {"pipes": sorted({ps.PIPES[p] for p, _ in plan}), "sequence_length": "up to 6 (streaming prefix of 3 + every tail of 2-3 operations)",
                       "sequences": len(qs), "buffer_octets": 3},
            "exhaustive": True,
            "rule": "every operation sequence of the stated length over the stated alphabet (per pipe) is one query; exhaustive within that "
                    "enumeration; a query is non-trivial if the solver decided at least one verification condition",
            "assumptions": ps.COMMON_ASSUME,
            "outside": ["sequences longer than the bound", "split / bin / sub-pipes (upipe_dup, helper_bin_output, helper_subpipe)",
                        "ts_psi_join / ts_psi_split", "pipes needing external libraries"]}
    return qs, meta
