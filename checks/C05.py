from checks import pipeseq as ps

CLAIM = {
    "text": "Bounded model checking of real one-to-one pipes (idem, skip, htons, setattr, setflowdef, probe_uref, delay, match_attr) and "
            "the null sink, plus a buffering pipe assembled in the harness from the real upipe_helper_input.h / upipe_helper_output.h macros (hold while the downstream is blocked, held buffers first and in arrival order once unblocked, freed on flush / release), under every listed interleaving of several inputs with control operations (output switched, disconnected, "
            "reconnected; sink starting/stopping to refuse the flow definition; flush; release). Online monitors at the recording sinks: "
            "every delivered buffer is one of the buffers handed to the pipe, not delivered before, in input order (no duplication, "
            "invention or reordering), delivered only to the connected output; its payload (3 symbolic octets) is unchanged but for the "
            "documented transformation (skip: configured prefix removed; htons: 16-bit words swapped); whatever is not forwarded is freed "
            "by the pipe (CBMC memory-leak check on every query) and nothing is freed twice or used after free (CBMC pointer checks).",
    "note": "Trusted: as C04. Bounds: up to 4 buffers per history, histories of 5-6 operations, single-segment 3-octet buffers. "
            "Not covered: upipe_dup (sub-pipes), upipe_queue_sink itself, chains of several pipes, "
            "attribute preservation (the dictionary is forwarded as the same object; its content is C10's subject).",
    "technique": "CBMC bounded model checking of real C pipes with online conservation/order monitors and memory-leak check; complete "
                 "enumeration of operation sequences within the stated alphabet/length, symbolic payloads",
}


def build(tier):
    quick = tier == "quick"
    qs = []
    ctl = [6, 4, 5, 8, 9, 7]
    # helper_input hold path: 4 buffers held while the downstream is blocked, then credits / drains in every order
    hold_q = [[0, 3, 6, 6, 6, 6] + t for t in ps.seqs([11, 12, 13], 4, must=(12,))] + \
        [[0, 3, 6, 6, 11, 12, 6, 6, 13, 12], [0, 3, 13, 6, 6, 6, 12, 11, 12, 7], [0, 3, 6, 6, 5, 12, 3, 13, 12], [0, 3, 6, 6, 6, 7, 13, 12, 6]]
    hold_t = [[0, 3] + [6] * n + t for n in (2, 3, 4) for k in (3, 4, 5) for t in ps.seqs([11, 12, 13], k, must=(12,))] + \
        [[0, 3, 6, 6] + t for t in ps.seqs([11, 12, 13, 6, 7], 4, must=(12,))]
    if quick:
        plan = [(1, [[0, 3] + t for t in ps.seqs(ctl, 4, last=(6,), min_count={6: 2})]),
                (2, [[0, 3] + t for t in ps.seqs([6, 4, 8], 3, last=(6,), must=(6,))] + [[0, 3, 6, 6, 6, 6]]),
                (7, [[0, 3] + t for t in ps.seqs([6, 4, 5], 3, last=(6,), must=(6,))]),
                (8, [[0, 6, 6], [6, 0, 6, 7, 6]]),
                (11, hold_q)]
    else:
        big = [[0, 3] + t for t in ps.seqs(ctl + [3, 1], 4, min_count={6: 2})] + [[3, 0] + t for t in ps.seqs(ctl, 4, last=(6,), min_count={6: 2})]
        mid = [[0, 3] + t for t in ps.seqs(ctl, 4, last=(6,), min_count={6: 2})]
        plan = [(1, big)] + [(p, mid) for p in (2, 3, 4, 5, 6, 7, 9)] + [(8, [[0] + t for t in ps.seqs([6, 7, 1], 3, must=(6,))]), (11, hold_q + hold_t)]
    for pipe, sq in plan:
        for i, ops in enumerate(sq):
            qs.append(ps.query("C05", pipe, ops, timeout=280 if quick else 900, sample=(i % 40 == 7), replay=(i % 50 == 7),
                               witness_delivered=0))
    seen = set()
    qs = [q for q in qs if not (q.name in seen or seen.add(q.name))]
    meta = {"bounds": {"pipes": sorted({ps.PIPES[p] for p, _ in plan}), "sequence_length": "2 (connect) + 4", "sequences": len(qs),
                       "buffers_per_history": "2..4", "buffer_octets": 3},
            "exhaustive": True,
            "rule": "every interleaving of the stated length over the stated alphabet with at least two inputs is one query",
            "assumptions": ps.COMMON_ASSUME + ["buffers dropped because no accepting output is connected are not 'lost' (documented behaviour of the output helper); "
                                               "they must be freed (leak check) and may not be delivered later"],
            "outside": ["upipe_dup and other split pipes", "the queue sink itself (its use of the hold helper is covered through the helper-built pipe)", "chains of pipes",
                        "segmented payloads"]}
    return qs, meta
