from vlib.core import Query
from checks import pipeseq as ps

DUP_OPN = {0: "set_flow_def(block.)", 1: "set_flow_def(block.other.)", 2: "input", 3: "new output sub-pipe 0 -> S0", 4: "new output sub-pipe 1 -> S1",
           5: "release sub-pipe 0", 6: "release sub-pipe 1", 7: "set_output(main, S2)", 8: "set_output(main, NULL)"}


def dup_query(ops, timeout, sample=False, replay=False):
    return Query(name="dup_" + "-".join(map(str, ops)), harness="C05_dup.c",
                 defines=["OPS=" + ",".join(map(str, ops)), "WITNESS_DELIVERED=0", "VERIF_POOL_NO_MGR_REF"], shims=ps.SHIMS,
                 unwind=max(10, len(ops) + 3), unwindset=[u for u in ps.UW if not u.startswith(("env_count", "probe_check"))] + ["order.0:62"],
                 fp_restrict=True, timeout=timeout, leak=True, replay_witness=replay,
                 sample={"pipe": "dup (main output + 2 output sub-pipes, 3 sinks)", "operations": [DUP_OPN[o] for o in ops] + ["release"],
                         "symbolic": "payload octets"} if sample else None)

CLAIM = {
    "text": "Bounded model checking of real one-to-one pipes (idem, skip, htons, setattr, setflowdef, probe_uref, delay, match_attr) and "
            "the null sink, the duplicating split upipe_dup, plus a buffering pipe assembled in the harness from the real upipe_helper_input.h / upipe_helper_output.h macros (hold while the downstream is blocked, held buffers first and in arrival order once unblocked, freed on flush / release), under every listed interleaving of several inputs with control operations (output switched, disconnected, "
            "reconnected; sink starting/stopping to refuse the flow definition; flush; release). Online monitors at the recording sinks: "
            "every delivered buffer is one of the buffers handed to the pipe, not delivered before, in input order (no duplication, "
            "invention or reordering), delivered only to the connected output; its payload (3 symbolic octets) is unchanged but for the "
            "documented transformation (skip: configured prefix removed; htons: 16-bit words swapped); whatever is not forwarded is freed "
            "by the pipe (CBMC memory-leak check on every query) and nothing is freed twice or used after free (CBMC pointer checks).",
    "note": "Trusted: as C04. Bounds: up to 4 buffers per history, histories of 5-6 operations, 3-octet buffers (single-segment, and two-segment ones for "
            "idem / skip / htons [+ setattr / probe_uref / delay in the thorough tier]); one-to-one pipes must emit exactly one output per input whenever a connected output accepted the definition. "
            "The duplicating split upipe_dup runs in harness/C05_dup.c (main output + two output sub-pipes created / released in "
            "mid-stream, three sinks): every input reaches every output that exists at that moment, in order, once, payload unchanged, after "
            "the current flow definition. The queue sink is covered by C06. Not covered: chains of several pipes, "
            "attribute preservation (the dictionary is forwarded as the same object; its content is C10's subject).",
    "technique": "CBMC bounded model checking of real C pipes with online conservation/order monitors and memory-leak check; complete "
                 "enumeration of operation sequences within the stated alphabet/length, symbolic payloads",
}


def build(tier):
    quick = tier == "quick"
    qs = []
    ctl = [6, 4, 5, 8, 9, 7]
    # helper_input hold path: 4 buffers held while the downstream is blocked, then credits / drains in every order
    hold_q = [[0, 3, 6, 6, 6, 6] + t for t in ps.seqs([11, 12, 13], 4, must=(12,))] + \
        [[0, 3, 6, 6, 11, 12, 6, 6, 13, 12], [0, 3, 13, 6, 6, 6, 12, 11, 12, 7], [0, 3, 6, 6, 5, 12, 3, 13, 12], [0, 3, 6, 6, 6, 7, 13, 12, 6]]
    hold_t = [[0, 3] + [6] * n + t for n in (2, 3, 4) for k in (3, 4, 5) for t in ps.seqs([11, 12, 13], k, must=(12,))] + \
        [[0, 3, 6, 6] + t for t in ps.seqs([11, 12, 13, 6, 7], 4, must=(12,))]
    if quick:
        plan = [(1, [[0, 3] + t for t in ps.seqs(ctl, 4, last=(6,), min_count={6: 2})]),
                (2, [[0, 3] + t for t in ps.seqs([6, 4, 8], 3, last=(6,), must=(6,))] + [[0, 3, 6, 6, 6, 6]]),
                (7, [[0, 3] + t for t in ps.seqs([6, 4, 5], 3, last=(6,), must=(6,))]),
                (8, [[0, 6, 6], [6, 0, 6, 7, 6]]),
                (11, hold_q)]
    else:
        big = [[0, 3] + t for t in ps.seqs(ctl + [3, 1], 4, min_count={6: 2})] + [[3, 0] + t for t in ps.seqs(ctl, 4, last=(6,), min_count={6: 2})]
        mid = [[0, 3] + t for t in ps.seqs(ctl, 4, last=(6,), min_count={6: 2})]
        plan = [(1, big)] + [(p, mid) for p in (2, 3, 4, 5, 6, 7, 9)] + [(8, [[0] + t for t in ps.seqs([6, 7, 1], 3, must=(6,))]), (11, hold_q + hold_t)]
    for pipe, sq in plan:
        for i, ops in enumerate(sq):
            qs.append(ps.query("C05", pipe, ops, timeout=280 if quick else 900, sample=(i % 40 == 7), replay=(i % 50 == 7),
                               witness_delivered=0))
    # segmented payloads (two chained segments) through the payload transformers and a pass-through pipe
    segplan = [(7, 2), (7, 1), (2, 1), (2, 2), (1, 2)] if quick else [(p, sg) for p in (1, 2, 3, 5, 6, 7) for sg in (1, 2)]
    for pipe, sg in segplan:
        for ops in ([[0, 3, 6, 6], [0, 3, 6, 4, 6]] if quick else [[0, 3] + t for t in ps.seqs([6, 4, 5, 7], 3, last=(6,), min_count={6: 2})]):
            qs.append(ps.query("C05", pipe, ops, timeout=280 if quick else 900, witness_delivered=2 if ops == [0, 3, 6, 6] else 0, segmented=sg))
    # the duplicating split upipe_dup: outputs added / removed in mid-stream, main output set / removed, definition changed
    if quick:
        dq = [[0, 3, 2] + t for t in ps.seqs([1, 2, 4, 5, 7, 8], 3, last=(2,))][::2] + \
             [[0, 3, 4, 2, 2], [3, 0, 2, 7, 2, 5, 2, 1, 2, 4, 2], [0, 7, 2, 8, 2, 3, 2, 6], [3, 4, 2, 0, 2], [7, 3, 0, 2, 4, 2, 6, 2, 8, 2]]
    else:
        dq = [[0, 3, 2] + t for t in ps.seqs([1, 2, 4, 5, 6, 7, 8], 4, last=(2,))] + [[3, 4, 7] + t for t in ps.seqs([0, 1, 2, 5, 8], 3, last=(2,), must=(0,))] + \
             [[0, 3, 4, 2, 2], [3, 0, 2, 7, 2, 5, 2, 1, 2, 4, 2], [0, 7, 2, 8, 2, 3, 2, 6], [3, 4, 2, 0, 2], [7, 3, 0, 2, 4, 2, 6, 2, 8, 2]]
    for i, ops in enumerate(dq):
        qs.append(dup_query(ops, 280 if quick else 900, sample=(i == 1), replay=(i % 15 == 1)))
    seen = set()
    qs = [q for q in qs if not (q.name in seen or seen.add(q.name))]
    meta = {"bounds": {"pipes": sorted({ps.PIPES[p] for p, _ in plan} | {"dup (split)"}), "sequence_length": "2 (connect) + 4", "sequences": len(qs),
                       "buffers_per_history": "2..4", "buffer_octets": 3},
            "exhaustive": True,
            "rule": "every interleaving of the stated length over the stated alphabet with at least two inputs is one query",
            "assumptions": ps.COMMON_ASSUME + ["buffers dropped because no accepting output is connected are not 'lost' (documented behaviour of the output helper); "
                                               "they must be freed (leak check) and may not be delivered later"],
            "outside": ["split pipes other than upipe_dup", "chains of pipes",
                        "payloads of more than two segments"]}
    return qs, meta
