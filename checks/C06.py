import itertools
from vlib.core import Query
from checks import pipeseq as ps

OPN = {0: "P:set_flow_def(block.)", 1: "P:set_flow_def(block.other.)", 2: "P:input", 3: "P:flush", 4: "P:release(qsink)", 5: "A:release(qsrc handle)",
       7: "C:worker", 8: "C:oob", 9: "P:watcher", 10: "P:set_output(qsink,S1)", 11: "P:set_output(qsink,NULL)",
       21: "arm: consumer worker before the next queue push", 22: "arm: consumer worker before the 2nd push from now", 23: "arm: ... 3rd push", 24: "arm: ... 4th push",
       26: "arm: producer watcher before the next queue pop", 27: "arm: ... 2nd pop", 28: "arm: ... 3rd pop", 29: "arm: ... 4th pop",
       12: "P:register request", 13: "P:unregister request", 14: "C:provider answers", 15: "P:oob", 16: "P:set+get max_length", 17: "all getters"}

CLAIM = {
    "text": "Bounded model checking of the REAL queue sink / queue source pipes (lib/upipe-modules/upipe_queue_sink.c, "
            "upipe_queue_source.c, upipe_queue.c over the real uqueue.h / ufifo.h / ueventfd.h, upipe_helper_input / output / upump, "
            "lib/upipe/upump_common.c and the real uref / block managers) with the two threads SEQUENTIALISED at the granularity of "
            "event-loop callbacks: the producer thread's calls (set_flow_def, input, flush, release) and the callbacks the two event "
            "loops may run (consumer: queue worker and out-of-band worker; producer: push watcher) form a schedule; a callback runs "
            "only if its watcher is active and its event descriptor readable (eventfd(2) model), exactly as the loop would. For every "
            "schedule in the enumerated family (all placements of up to 2-3 callback bursts between the operations of 4 producer "
            "scripts, queue lengths 1 and 2), with symbolic payloads: every buffer arrives exactly once and in order at the consumer's "
            "output, preceded by the flow definition it was sent under (also after a change of definition in mid-stream); a full queue "
            "holds and later delivers instead of dropping (everything sent has arrived once the loops are quiescent, unless flush was "
            "called); end-of-source is signalled once and only after the last buffer; both pipes die exactly once, every watcher is "
            "freed, every reference on the outputs is returned and nothing leaks (CBMC memory-leak check).",
    "note": "PARTIAL claim. Covered: the queue part of C06 at callback granularity. Finer than a callback, a family of schedules nests ONE callback of the "
            "other thread before the k-th queue push / pop of a call (the pipes' uqueue_push / uqueue_pop go through harness wrappers around "
            "the real inline functions). NOT covered (outside the claim): other interleavings inside a callback (both threads inside "
            "multi-operation callbacks at once; the queue's own operations under arbitrary interleavings are C07 / C08's subject), data races between the two threads on non-atomic "
            "fields, upipe_transfer / upipe_worker / uprobe_transfer / upipe_pthread_transfer (thread affinity of transferred pipes), "
            "queue lengths above 2. The schedule is enumerated by the driver, not symbolic: one symbolic scheduling step already gave no "
            "verdict in 600 s (and CBMC's --paths mode did not finish 2000 paths in 15 min). Hook: UPIPE_VERIF_OOB_QUEUES shortens the "
            "two out-of-band queues from 255 to 4 slots so that the pipe stays a field-sensitive object for CBMC.",
    "technique": "CBMC bounded model checking of the real C pipes under a sequentialised two-thread schedule (callback granularity, "
                 "enumerated schedules, eventfd model, symbolic payloads) with online order / flow-definition / end-of-source monitors and "
                 "memory-leak check",
}

SCRIPTS = {
    "stream": [0, 2, 2, 2, 4],
    "newdef": [0, 2, 1, 2, 2, 4],
    "newdef2": [0, 2, 2, 1, 2, 4],
    "flush": [0, 2, 2, 3, 2, 4],
    "srcfirst": [0, 2, 5, 2, 4],
    "pseudo": [10, 0, 2, 11, 2, 4],
}
BURSTS = [[7], [9], [7, 9, 7], [7, 9], [9, 7], [8], [7, 7]]


def schedules(script, bursts, k):
    """script with a burst of callbacks inserted after k of its operations (all placements x all bursts)"""
    out = []
    n = len(script)
    for pos in itertools.combinations(range(n), k):
        for bs in itertools.product(bursts, repeat=k):
            s = []
            for i, op in enumerate(script):
                s.append(op)
                if i in pos:
                    s += bs[pos.index(i)]
            out.append(s)
    return out


def q(name, ops, ln, timeout=600, sample=False, replay=False):
    return Query(name=name, harness="C06_queue.c",
                 defines=["OPS=" + ",".join(map(str, ops)), "LEN=%d" % ln, "WITNESS_DELIVERED=0", "VERIF_POOL_NO_MGR_REF", "UPIPE_VERIF_OOB_QUEUES=4"],
                 shims=ps.SHIMS, unwind=max(14, len(ops) + 3), unwindset=[u for u in ps.UW if not u.startswith("env_count")] + ["env_count.0:50"], fp_restrict=True, timeout=timeout, leak=True,
                 replay_witness=replay,
                 sample={"queue length": ln, "schedule": [OPN[o] for o in ops] + ["release both", "run the loops until quiescent"],
                         "symbolic": "payload octets"} if sample else None)


def build(tier):
    quick = tier == "quick"
    qs = []
    seen = set()
    plan = []
    if quick:
        for nm in ("stream", "newdef", "flush"):
            plan += [(nm, 1, s) for s in schedules(SCRIPTS[nm], BURSTS[:3], 1)]
        plan += [("stream", 1, s) for s in schedules(SCRIPTS["stream"], BURSTS[:2], 2)]
        plan += [("stream", 2, s) for s in schedules(SCRIPTS["stream"], BURSTS[:2], 2)][::2]
        plan += [("srcfirst", 1, s) for s in schedules(SCRIPTS["srcfirst"], BURSTS[:2], 1)]
        # a change of flow definition while the queue is exactly full and the sink holds nothing
        plan += [("newdef", 2, SCRIPTS["newdef"])] + [("newdef", 2, s) for s in schedules(SCRIPTS["newdef"], BURSTS[:2], 1)]
        plan += [("newdef", 1, s) for s in schedules(SCRIPTS["newdef"], BURSTS[3:4], 1)] + [("newdef2", 2, s) for s in schedules(SCRIPTS["newdef2"], BURSTS[:1], 1)]
    else:
        for nm in ("stream", "newdef", "newdef2", "flush", "srcfirst"):
            for ln in (1, 2):
                plan += [(nm, ln, s) for s in schedules(SCRIPTS[nm], BURSTS, 1)]
                plan += [(nm, ln, SCRIPTS[nm])] + [(nm, ln, s) for s in schedules(SCRIPTS[nm], BURSTS[:4] if (ln == 1 and nm in ("stream", "newdef")) else BURSTS[:2], 2)]
        plan += [("stream", 1, s) for s in schedules(SCRIPTS["stream"], BURSTS[:2], 3)][::2]
    # finer than a callback: a consumer worker nested before the k-th queue push of a producer call (21-24), a producer watcher
    # nested before the k-th pop of a consumer callback / of the teardown drains (26-29)
    def armed(script, arms):
        out = []
        for pos in range(1, len(script)):
            for a in arms:
                out.append(script[:pos] + [a] + script[pos:])
        return out
    if quick:
        plan += [("nested", 1, s) for s in armed(SCRIPTS["stream"], [22])] + [("nested", 2, s) for s in armed(SCRIPTS["newdef"], [22, 23])[::2]] + \
                [("nested", 1, [0, 2, 7, 9, 22, 2, 2, 4]), ("nested", 2, [0, 2, 2, 27, 4]), ("nested", 1, [0, 2, 2, 2, 26, 4]), ("nested", 1, [0, 2, 9, 27, 2, 4])]
    else:
        for nm in ("stream", "newdef", "flush"):
            for ln in (1, 2):
                plan += [("nested", ln, s) for s in armed(SCRIPTS[nm], [21, 22, 23, 26, 27])]
        plan += [("nested", 1, s) for s in schedules([0, 22, 2, 2, 4], BURSTS[:3], 1)] + [("nested", 2, s) for s in schedules([0, 2, 23, 2, 27, 4], BURSTS[:3], 1)]
    for i, (nm, ln, ops) in enumerate(plan):
        name = "queue_%s_len%d_%s" % (nm, ln, "-".join(map(str, ops)))
        if name in seen:
            continue
        seen.add(name)
        qs.append(q(name, ops, ln, timeout=280 if quick else 900, sample=(i % 60 == 5), replay=(i % 25 == 5)))
    meta = {"bounds": {"producer_scripts": {k: [OPN[o] for o in v] for k, v in SCRIPTS.items()}, "queue_length": "1-2", "buffers": "3",
                       "callback_bursts": [[OPN[o] for o in b] for b in BURSTS], "bursts_per_schedule": "1-2 (quick) / 1-3"},
            "exhaustive": True,
            "rule": "every placement of the stated number of callback bursts between the operations of each producer script is one query",
            "assumptions": ["eventfd(2) model: counter per descriptor, read returns and resets it or fails with EAGAIN, write adds; close",
                            "event loop = upump_mock.h over the real upump_common.c; a callback runs only when its watcher is active and its descriptor readable",
                            "granularity: one callback / API call is one atomic step",
                            "hook UPIPE_VERIF_OOB_QUEUES=4 (out-of-band queues of 4 slots instead of 255)"] + ps.COMMON_ASSUME[1:3],
            "outside": ["interleavings inside a callback other than one nested callback at a queue operation", "data races on non-atomic fields", "upipe_transfer / upipe_worker / uprobe_transfer / pthread transfer",
                        "queue lengths above 2", "requests across the queue (C12)"]}
    return qs, meta
