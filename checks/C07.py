import itertools
from vlib.core import Query

SEQZ = ["ONLY=w_ulifo_push,w_ulifo_pop,w_ufifo_push,w_ufifo_pop,w_upool_alloc,w_upool_free",
        "IMMUTABLE=%struct.ulifo:0,%struct.ufifo:0,%struct.upool:0.0,%struct.upool:1,%struct.upool:2,%struct.upool:3"]
KISSAT = ["--external-sat-solver", "kissat"]
UW = ["main.0:6", "main.1:8", "main.2:8", "main.3:10", "main.4:30", "main.5:30", "legal.0:8", "legal.1:8", "legal.2:8", "legal.3:8",
      "legal.4:8", "overlaps_someone.0:8"]
KIND = {"lifo": 0, "fifo": 1, "pool": 2}

CLAIM = {
    "text": "Bounded model checking over ALL thread schedules (context-bounded; every atomic operation and every unsynchronised access "
            "to uring_elem.tag / next / opaque is a preemption point) of the real uring.h / ulifo.h / ufifo.h / upool.h code, compiled "
            "by clang to LLVM IR and translated by vlib/seqz.py. For each client program (per-thread strings of push / pop, or pool "
            "alloc / free) the invocation/response history of every schedule must be linearizable w.r.t. the sequential bounded stack / "
            "queue: a pop returns the top / oldest element and returns nothing only when empty, a push fails only when full or when a "
            "slot was held by an operation in progress at the same time, nothing is lost, duplicated or invented (the existential over "
            "linearization orders is a disjunction over all program-order-respecting permutations, decided by the solver); a pool never "
            "hands an object to a second holder. The code's own assert()s are obligations. Single-thread programs establish the "
            "sequential facts (LIFO / FIFO order, exact full / empty, capacity 0 never stores, which justifies the depth-0 pool shim).",
    "note": "Trusted: clang lowering of __atomic builtins (seq_cst checked by the translator), the IR->C translator (validated every run "
            "against the real inline functions: evidence.translation_validation), CBMC 6.11 + kissat, sequential consistency. Bounds are "
            "small because the formulas are large (2M variables for push || pop): quick = LIFO push || pop (capacity 1) + FIFO pop || pop on two elements (2 rounds) "
            "+ sequential programs; thorough adds FIFO push || pop (15 min), pool alloc;free || "
            "alloc, two operations per thread (stretch queries: reported, not fatal, if undecided). uring_lifo/fifo fields of struct "
            "uring (length, elems) are treated as constants. Counterexamples are replayed natively on the gcc build of the generated "
            "code, not on real pthreads. Not covered: 3 threads, capacities > 2, weak memory.",
    "technique": "LLVM-IR sequentialization of the real lock-free code (own translator) + CBMC bounded model checking with a symbolic "
                 "context-bounded schedule; linearizability as a solver-decided disjunction over permutations",
}


def perms(progs):
    ops = [(t, k) for t, p in enumerate(progs) for k in range(len(p))]
    out = []
    for p in itertools.permutations(range(len(ops))):
        pos = {o: i for i, o in enumerate(p)}
        if all(not (ops[a][0] == ops[b][0] and ops[a][1] < ops[b][1] and pos[a] > pos[b]) for a in range(len(ops)) for b in range(len(ops))):
            out.append(p)
    return ops, out


def q(name, kind, progs, cap, rounds, init=0, age=0, timeout=600, stretch=False, sample=False):
    ops, ps = perms(progs)
    defs = ["KIND=%d" % KIND[kind], "CAP=%d" % cap, "NT=%d" % max(2, len(progs)), "ROUNDS=%d" % rounds, "BUDGET=24", "INIT_N=%d" % init, "AGE=%d" % age] + \
           ['PROG%d="%s"' % (i, p) for i, p in enumerate(progs)]
    if kind != "pool":
        defs += ["NOPS=%d" % len(ops), "OP_THREAD=" + ",".join(str(o[0]) for o in ops), "OP_INDEX=" + ",".join(str(o[1]) for o in ops),
                 "PERMS=" + ",".join("{" + ",".join(map(str, p)) + "}" for p in ps)]
    return Query(name=name, harness="C07_lockfree.c", defines=defs, shims=["uatomic_seq.h"], seqz=SEQZ, unwind=4, unwindset=UW,
                 timeout=timeout, replay_witness=True, backend=KISSAT, stretch=stretch,
                 sample={"structure": kind, "capacity": cap, "thread_programs": progs, "P": "push", "O": "pop", "A": "alloc", "F": "free",
                         "initial_elements": init, "slot_tags_start_at": age,
                         "schedule": "symbolic: %d rounds x (0..24 shared accesses per thread)" % rounds} if sample else None)


def build(tier):
    quick = tier == "quick"
    qs = [q("lifo_P|O_cap1", "lifo", ["P", "O"], 1, 4, sample=True),
          q("lifo_seq_PPO_cap2", "lifo", ["PPO", ""], 2, 4), q("lifo_seq_PPP_cap2_full", "lifo", ["PPP", ""], 2, 4),
          q("lifo_seq_PO_cap0", "lifo", ["PO", ""], 0, 3), q("fifo_seq_PPO_cap2", "fifo", ["PPO", ""], 2, 4, sample=True),
          q("fifo_seq_OPO_cap1", "fifo", ["OPO", ""], 1, 4),
          # the cheapest concurrent FIFO program that reaches the multi-element retry loop of uring_fifo_pop (4 min, 0.8 GB)
          q("fifo_O|O_cap2_init2_r2", "fifo", ["O", "O"], 2, 2, init=2, timeout=1500, sample=True)]
    if not quick:
        qs += [q("lifo_P|O_cap1_aged", "lifo", ["P", "O"], 1, 4, age=65535, timeout=3000),
               q("lifo_O|O_cap2_init1", "lifo", ["O", "O"], 2, 4, init=1, timeout=3000),
               q("lifo_P|P_cap1", "lifo", ["P", "P"], 1, 4, timeout=3000),
               q("fifo_P|O_cap1", "fifo", ["P", "O"], 1, 4, timeout=4000, stretch=True),
               q("fifo_O|O_cap2_init1", "fifo", ["O", "O"], 2, 4, init=1, timeout=4000, stretch=True),
               q("fifo_O|O_cap2_init2_r3", "fifo", ["O", "O"], 2, 3, init=2, timeout=4000),
               q("pool_AF|A_cap1", "pool", ["AF", "A"], 1, 5, timeout=4000, stretch=True),
               q("lifo_PO|PO_cap1", "lifo", ["PO", "PO"], 1, 6, timeout=6000, stretch=True),
               q("fifo_PO|OP_cap2", "fifo", ["PO", "OP"], 2, 6, timeout=6000, stretch=True)]
    meta = {"bounds": {"threads": "1-2", "operations_per_thread": "1-3", "capacity": "0-2", "context_bound": "ROUNDS per query"},
            "exhaustive": False,
            "rule": "one query per client program; the schedule is symbolic inside the query",
            "assumptions": ["sequential consistency", "struct uring fields (length, elems) constant after initialisation",
                            "a failed push is legal when full or when another operation overlaps it (the property's own wording)",
                            "schedules that do not complete within the round bound are outside the claim (witness twin shows completion is reachable)"],
            "outside": ["3 threads", "capacity 3", "more than 2 operations per thread under concurrency", "weak memory"]}
    return qs, meta
