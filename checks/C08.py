from vlib.core import Query

SEQZ = ["UNITS_QUEUE", "ONLY=w_uqueue_push,w_uqueue_pop,w_udeal_grab,w_udeal_yield,w_udeal_start_count"]
KISSAT = ["--external-sat-solver", "kissat"]

CLAIM = {
    "text": "Bounded model checking over ALL thread schedules (context-bounded, every shared access a preemption point) of the real "
            "uqueue_push / uqueue_pop protocol (uqueue.h: failed attempt -> reset the descriptor -> re-check -> re-arm; counter "
            "transitions 0->1 and length->length-1 write the other side's descriptor) and of the real udeal_grab / udeal_yield / waiter "
            "accounting (udeal.h), compiled by clang to LLVM IR and translated by vlib/seqz.py; a consumer is a level-triggered "
            "watcher on event_pop (after ANY pop, successful or not, it runs again only while the descriptor is readable), a producer whose "
            "push failed waits for event_push, a contender waits for the dealer's event. Asserted after every slice of "
            "every schedule: NO LOST WAKEUP -- it is never the case that work remains while every unfinished thread sleeps on a "
            "non-readable descriptor; the queue never stores more than its length; the dealer admits at most one holder at a time and "
            "after a yield the remaining contenders are not all left asleep.",
    "note": "Compositional cut (stated, see harness/conc_units.c): the FIFO under the queue is modelled as an atomic bounded queue (its "
            "linearizability is C07's subject), the event descriptors as eventfd(2) counters (read resets, write adds one, readable iff "
            "> 0; the errno/EINTR retry loops of ueventfd.h and the pipe(2) fallback are not encoded), pump start/stop as no-ops. "
            "Trusted: clang lowering, the IR->C translator (validated every run), CBMC 6.11, sequential consistency. Bounds: 1-2 producers "
            "+ 1-2 consumers (up to 4 threads), 2-4 elements, length 1-2; 2-3 dealer contenders; ROUNDS context switches per thread. Counterexamples are "
            "replayed natively on the gcc build of the generated code (sequential simulation of the schedule), not on real pthreads.",
    "technique": "LLVM-IR sequentialization of the real wake-up protocols (own translator) + CBMC bounded model checking with a symbolic, "
                 "context-bounded schedule; deadlock (lost wake-up) assertion after every slice",
}


def q(name, defs, timeout=600, sample=None):
    rounds = max([int(d.split("=")[1]) for d in defs if d.startswith("ROUNDS=")] + [8])
    return Query(name=name, harness="C08_wakeup.c", defines=defs + ["BUDGET=6"], shims=["uatomic_seq.h"], seqz=SEQZ, unwind=rounds + 2,
                 timeout=timeout, replay_witness=True, backend=KISSAT, sample=sample)


def build(tier):
    quick = tier == "quick"
    qs = [q("queue_len1_1prod_1cons_2el", ["MODE=0", "LEN=1", "NEL=2", "NPROD=1", "NT=2", "ROUNDS=8"],
            sample={"queue length": 1, "producers": 1, "consumers": 1, "elements": 2, "schedule": "symbolic: 8 rounds x (0..6 shared accesses per thread)"}),
          q("queue_len2_1prod_1cons_3el", ["MODE=0", "LEN=2", "NEL=3", "NPROD=1", "NT=2", "ROUNDS=8"], timeout=1200),
          q("queue_len1_1prod_2cons_2el", ["MODE=0", "LEN=1", "NEL=2", "NPROD=1", "NT=3", "ROUNDS=6"], timeout=1200),
          q("queue_len2_2prod_1cons_2el", ["MODE=0", "LEN=2", "NEL=2", "NPROD=2", "NT=3", "ROUNDS=6"], timeout=1200,
            sample={"queue length": 2, "producers": 2, "consumers": 1, "elements": "2 per producer", "schedule": "symbolic: 6 rounds x (0..6 shared accesses per thread)"}),
          q("dealer_2_contenders", ["MODE=1", "NT=2", "ROUNDS=8"],
            sample={"dealer contenders": 2, "schedule": "symbolic: 8 rounds x (0..6 shared accesses per thread)"})]
    if not quick:
        qs += [q("queue_len2_1prod_1cons_3el_r10", ["MODE=0", "LEN=2", "NEL=3", "NPROD=1", "NT=2", "ROUNDS=10"], timeout=3000),
               q("queue_len1_2prod_1cons", ["MODE=0", "LEN=1", "NEL=1", "NPROD=2", "NT=3", "ROUNDS=8"], timeout=3000),
               q("queue_len2_2prod_1cons_2el_r8", ["MODE=0", "LEN=2", "NEL=2", "NPROD=2", "NT=3", "ROUNDS=8"], timeout=3000),
               q("queue_len2_1prod_2cons_3el", ["MODE=0", "LEN=2", "NEL=3", "NPROD=1", "NT=3", "ROUNDS=8"], timeout=3000),
               q("queue_len1_2prod_2cons", ["MODE=0", "LEN=1", "NEL=1", "NPROD=2", "NT=4", "ROUNDS=6"], timeout=3000),
               q("dealer_3_contenders", ["MODE=1", "NT=3", "ROUNDS=8"], timeout=3000),
               q("dealer_2_contenders_r12", ["MODE=1", "NT=2", "ROUNDS=12"], timeout=3000)]
    meta = {"bounds": {"threads": "2-4", "queue_length": "1-2", "elements": "2-3", "context_bound": "ROUNDS per query"},
            "exhaustive": False,
            "rule": "one query per client configuration; the schedule (slice lengths per round and thread) is symbolic inside the query",
            "assumptions": ["FIFO atomic (C07), event descriptors = eventfd(2) counters, level-triggered event loop",
                            "sequential consistency; schedules beyond the round bound are outside the claim"],
            "outside": ["pipe(2) fallback of ueventfd", "EINTR / errno paths", "more than 3 threads", "weak memory"]}
    return qs, meta
