from vlib.core import Query

ONLY = ["ONLY=w_urefcount_use,w_urefcount_release,w_shared_use,w_shared_release"]
UW = ["S_w_urefcount_use.0:5", "S_w_urefcount_release.0:5", "S_w_shared_use.0:4", "S_w_shared_release.0:4", "dtor.0:4",
      "after_release.0:4", "main.0:6", "main.1:4"]

CLAIM = {
    "text": "Bounded model checking over ALL thread schedules of the real urefcount_use / urefcount_release (urefcount.h) and "
            "ubuf_mem_shared_use / ubuf_mem_shared_release (ubuf_mem_common.h) with the real uatomic.h: the functions are compiled by "
            "clang -O1 to LLVM IR and translated mechanically (vlib/seqz.py) into resumable C in which EVERY access to shared memory "
            "(each atomic RMW and each plain load/store, including the unsynchronised read and clearing of urefcount.cb) is a "
            "scheduling point; 2-3 threads run legitimate use/release programs and the schedule is a symbolic sequence of thread ids "
            "decided by the SAT solver. Asserted for every schedule: the destructor runs exactly once, in the final release of the last "
            "holder, and only when every other thread has completed all its operations (no reference outstanding, nobody touches the "
            "object afterwards); for the shared memory area exactly one release returns true and it is the last holder's; every thread "
            "terminates within the step bound.",
    "note": "Trusted: clang 14 lowering of __atomic builtins to seq_cst atomicrmw/cmpxchg (the translator refuses anything weaker), the "
            "IR->C translator (validated every run against the real inline functions on deterministic sequential scenarios, see "
            "translation_validation in the evidence), CBMC 6.11. Memory model: sequential consistency, which is what the code requests. "
            "Bounds: 2-3 threads, programs of <= 3 operations per thread, step bound stated per query (checked by an assertion). "
            "Counterexamples are replayed natively on the gcc build of the same generated code (a sequential simulation of the schedule), "
            "not on real pthreads. Not covered: hardware memory models weaker than seq_cst, more threads, upool / ubuf_block_mem dup+free "
            "under races (their refcounting goes through the two primitives above).",
    "technique": "LLVM-IR sequentialization of the real lock-free code (own translator) + CBMC bounded model checking with a symbolic "
                 "schedule; every shared-memory access is a preemption point",
}


def q(name, progs, steps, shared=False, timeout=280, sample=False):
    defs = ["NT=%d" % len(progs), "STEPS=%d" % steps] + ['PROG%d="%s"' % (i, p) for i, p in enumerate(progs)] + (["SHARED"] if shared else [])
    return Query(name=name, harness="C09_refcount.c", defines=defs, shims=["uatomic_seq.h"], seqz=ONLY, unwind=steps + 2, unwindset=UW,
                 timeout=timeout, replay_witness=True,
                 sample={"object": "ubuf_mem_shared" if shared else "urefcount", "thread_programs": progs, "u": "use", "r": "release",
                         "schedule": "symbolic, %d steps, every shared access a scheduling point" % steps} if sample else None)


def build(tier):
    quick = tier == "quick"
    qs = [q("rc_r|r", ["r", "r"], 12, sample=True), q("rc_urr|r", ["urr", "r"], 20),
          q("shared_r|r", ["r", "r"], 6, shared=True), q("shared_urr|urr", ["urr", "urr"], 10, shared=True, sample=True),
          q("shared_r|r|r", ["r", "r", "r"], 8, shared=True), q("shared_urr|r|uurrr", ["urr", "r", "uurrr"], 14, shared=True)]
    if not quick:
        qs += [q("rc_urr|urr", ["urr", "urr"], 30, timeout=3000), q("rc_r|urr|r", ["r", "urr", "r"], 26, timeout=3000),
               q("rc_r|r|r", ["r", "r", "r"], 18, timeout=3000), q("rc_ururr|r", ["ururr", "r"], 30, timeout=3000),
               q("shared_ururr|urr|r", ["ururr", "urr", "r"], 18, shared=True, timeout=3000)]
    meta = {"bounds": {"threads": "2-3", "operations_per_thread": "<= 3 (5 in thorough)", "step_bound": "per query (STEPS), asserted sufficient",
                       "granularity": "one step = one shared-memory access + the local computation that follows"},
            "exhaustive": False,
            "rule": "one query per client program (tuple of per-thread use/release strings); inside a query the schedule is symbolic",
            "assumptions": ["sequential consistency (the code uses __ATOMIC_SEQ_CST everywhere; the translator checks it)",
                            "threads start holding one reference each (handed over by the creator before the threads start)",
                            "harness data initialised sequentially with uatomic_seq.h (same layout as the real uatomic.h)"],
            "outside": ["weaker hardware memory models", "more than 3 threads", "programs longer than the bound"]}
    return qs, meta
