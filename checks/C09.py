from vlib.core import Query

ONLY = ["ONLY=w_urefcount_use,w_urefcount_release,w_shared_use,w_shared_release"]
UW = ["dtor.0:4", "after_release.0:4", "main.0:8"]

CLAIM = {
    "text": "Bounded model checking over ALL thread schedules of the real urefcount_use / urefcount_release (urefcount.h) and "
            "ubuf_mem_shared_use / ubuf_mem_shared_release (ubuf_mem_common.h) with the real uatomic.h: the functions are compiled by "
            "clang -O1 to LLVM IR and translated mechanically (vlib/seqz.py) into resumable C in which EVERY access to shared memory "
            "(each atomic RMW and each plain load/store, including the unsynchronised read and clearing of urefcount.cb) is a "
            "scheduling point; 2-3 threads run legitimate use/release programs and the schedule is a symbolic sequence of thread ids "
            "decided by the SAT solver. Asserted for every schedule: the destructor runs exactly once, in the final release of the last "
            "holder, and only when every other thread has completed all its operations (no reference outstanding, nobody touches the "
            "object afterwards); for the shared memory area exactly one release returns true and it is the last holder's; (completion within the round bound is assumed; the witness twin shows it is reachable).",
    "note": "Trusted: clang 14 lowering of __atomic builtins to seq_cst atomicrmw/cmpxchg (the translator refuses anything weaker), the "
            "IR->C translator (validated every run against the real inline functions on deterministic sequential scenarios, see "
            "translation_validation in the evidence), CBMC 6.11. Memory model: sequential consistency, which is what the code requests. "
            "Bounds: 2-3 threads, programs of <= 3 operations per thread, round (context-switch) bound stated per query. "
            "Counterexamples are replayed natively on the gcc build of the same generated code (a sequential simulation of the schedule), "
            "not on real pthreads. Not covered: hardware memory models weaker than seq_cst, more threads, upool / ubuf_block_mem dup+free "
            "under races (their refcounting goes through the two primitives above).",
    "technique": "LLVM-IR sequentialization of the real lock-free code (own translator) + CBMC bounded model checking with a symbolic "
                 "schedule; every shared-memory access is a preemption point",
}


def q(name, progs, steps, shared=False, timeout=280, sample=False):
    defs = ["NT=%d" % len(progs), "ROUNDS=%d" % steps, "BUDGET=6"] + ['PROG%d="%s"' % (i, p) for i, p in enumerate(progs)] + (["SHARED"] if shared else [])
    return Query(name=name, harness="C09_refcount.c", defines=defs, shims=["uatomic_seq.h"], seqz=ONLY, unwind=steps + 2, unwindset=UW,
                 timeout=timeout, replay_witness=True,
                 sample={"object": "ubuf_mem_shared" if shared else "urefcount", "thread_programs": progs, "u": "use", "r": "release",
                         "schedule": "symbolic: %d rounds, each thread runs 0..6 shared accesses per round (solver-chosen)" % steps} if sample else None)


def build(tier):
    quick = tier == "quick"
    qs = [q("rc_r|r", ["r", "r"], 5, sample=True), q("rc_urr|r", ["urr", "r"], 7), q("rc_urr|urr", ["urr", "urr"], 7), q("rc_r|urr|r", ["r", "urr", "r"], 6),
          q("shared_r|r", ["r", "r"], 4, shared=True), q("shared_urr|urr", ["urr", "urr"], 7, shared=True, sample=True),
          q("shared_r|r|r", ["r", "r", "r"], 4, shared=True), q("shared_urr|r|uurrr", ["urr", "r", "uurrr"], 8, shared=True)]
    if not quick:
        qs += [q("rc_urr|urr_r10", ["urr", "urr"], 10, timeout=3000), q("rc_urr|urr|r", ["urr", "urr", "r"], 8, timeout=3000),
               q("rc_r|r|r", ["r", "r", "r"], 6, timeout=3000), q("rc_ururr|urr", ["ururr", "urr"], 10, timeout=3000),
               q("rc_uurrr|urr|r", ["uurrr", "urr", "r"], 9, timeout=3000),
               q("shared_ururr|urr|uurrr", ["ururr", "urr", "uurrr"], 10, shared=True, timeout=3000)]
    meta = {"bounds": {"threads": "2-3", "operations_per_thread": "<= 3 (5 in thorough)", "context_bound": "ROUNDS per query: every schedule in which no thread is preempted more than ROUNDS times (slices of 0..6 shared accesses, a slice ends with the operation at the latest); schedules that do not complete within the bound are outside the claim",
                       "granularity": "every shared-memory access is a possible preemption point"},
            "exhaustive": False,
            "rule": "one query per client program (tuple of per-thread use/release strings); inside a query the schedule is symbolic",
            "assumptions": ["sequential consistency (the code uses __ATOMIC_SEQ_CST everywhere; the translator checks it)",
                            "threads start holding one reference each (handed over by the creator before the threads start)",
                            "harness data initialised sequentially with uatomic_seq.h (same layout as the real uatomic.h)"],
            "outside": ["weaker hardware memory models", "more than 3 threads", "programs longer than the bound"]}
    return qs, meta
