import itertools
from vlib.core import Query

SHIMS = ["uatomic_seq.h", "upool_depth0.h"]
UW = ["strlen.0:8", "strcmp.0:8", "memcpy.0:20", "memcmp.0:20", "memmove.0:40", "urefcount_release:2"]
KEYN = ["a:opaque", "ab:opaque", "b:string", "a:unsigned", "f.def(shorthand string)", "f.id(shorthand unsigned)", "v:void",
        "s:small_unsigned", "i:int", "r:rational", "o:bool"]
OPN = ["set", "delete", "dup", "import", "copy", "set-from-own-storage"]

CLAIM = {
    "text": "Bounded model checking of the real lib/upipe/udict_inline.c (TLV walk, shorthands, set with slot reuse / delete + append, "
            "growth by realloc, delete compaction, dup) and udict.h (typed big-endian / sign-magnitude accessors, set_opaque / set_string "
            "copy-before-move, import, copy, cmp, iterate) against a typed map model: for every listed history of set / delete / dup / "
            "copy / import / set-from-a-pointer-into-its-own-storage over 11 (name, type) keys chosen to hit the walker's edge cases "
            "(a name that is a prefix of another, the same name under two types, shorthands, zero-size values) and three manager "
            "configurations (no growth, growth on every set), every lookup returns exactly the value last stored (all octets, ALL 64-bit "
            "unsigned / signed / rational values, booleans are symbolic) or reports the attribute absent, iteration visits each present "
            "attribute exactly once and nothing else, a duplicate / copy is unaffected by later operations on the other, and udict_cmp "
            "reports equality exactly when the two models are equal (decided symbolically over the values).",
    "note": "Trusted: CBMC 6.11, the map model in the harness, shims (uatomic_seq.h, upool_depth0.h), static managers, fprestrict target "
            "sets. The history's operation kinds, keys and value SIZES are enumerated by the driver (they fix the TLV layout; a symbolic "
            "layout gave no verdict in 600 s / 41 GB); string CHARACTERS are concrete (symbolic ones make strlen, hence the layout, "
            "symbolic). Bounds: histories of 2 (all) and 3 (reduced alphabet) operations, values <= 2 octets, names <= 2 characters. Not "
            "covered: values up to 64 KiB, float attributes, uref_attr.h wrappers.",
    "technique": "CBMC bounded model checking of real C against a typed map model; complete enumeration of operation/key/size histories, "
                 "symbolic values",
}

SETS = [(0, 0, 0), (0, 0, 2), (0, 1, 1), (0, 2, 0), (0, 2, 2), (0, 3, 0), (0, 4, 1), (0, 4, 2), (0, 5, 0), (0, 6, 0), (0, 7, 0), (0, 8, 0),
        (0, 9, 0), (0, 10, 0)]
DELS = [(1, k, 0) for k in (0, 1, 2, 3, 4, 5, 9)]
MISC = [(2, 0, 0), (4, 0, 0), (3, 0, 0)]
ALIAS = [(5, 1, 0), (5, 0, 1), (5, 4, 2), (5, 2, 4)]
CFGS = [(-1, -1), (2, 0), (2, 3)]


def valid(seq):
    present = set()
    for op, k, sz in seq:
        if op == 0:
            present.add(k)
        elif op == 1:
            present.discard(k)
        elif op == 3:
            present |= {1, 5}
        elif op == 5:
            if sz not in present:
                return False
            present.add(k)
    return True


def build(tier):
    quick = tier == "quick"
    if quick:
        alpha = SETS[:9] + DELS[:5] + MISC + ALIAS[:2]
        small = [(0, 0, 2), (0, 1, 1), (0, 3, 0), (1, 0, 0), (2, 0, 0), (5, 1, 0)]
        seqs = [list(t) for t in itertools.product(alpha, repeat=2)] + [list(t) for t in itertools.product(small, repeat=3)]
    else:
        alpha = SETS + DELS + MISC + ALIAS
        small = [(0, 0, 2), (0, 0, 0), (0, 1, 1), (0, 2, 2), (0, 3, 0), (0, 4, 1), (1, 0, 0), (1, 1, 0), (2, 0, 0), (3, 0, 0), (5, 1, 0), (5, 4, 2)]
        seqs = [[a] for a in alpha] + [list(t) for t in itertools.product(alpha, repeat=2)] + [list(t) for t in itertools.product(small, repeat=3)]
    seqs = [s for s in seqs if valid(s)]
    qs = []
    for i, sq in enumerate(seqs):
        cfgs = [CFGS[i % 3]] if quick else CFGS
        for (mn, ex) in cfgs:
            nm = "_".join("%s%s%s" % (OPN[o][:3], ("-" + KEYN[k].split(":")[0].split("(")[0]) if o in (0, 1, 5) else "", ("%d" % sz) if o == 0 else (("<" + KEYN[sz].split(":")[0].split("(")[0]) if o == 5 else ""))
                          for o, k, sz in sq) + "_min%d_extra%d_%d" % (mn, ex, i)
            qs.append(Query(name=nm, harness="C10_udict.c",
                            defines=["ATOMS=" + ",".join(",".join(map(str, a)) for a in sq), "MIN_SIZE=%d" % mn, "EXTRA_SIZE=%d" % ex,
                                     "STRVAR=%d" % (i & 1), "VERIF_POOL_NO_MGR_REF"],
                            shims=SHIMS, unwind=14, unwindset=UW, fp_restrict=False, timeout=280 if quick else 900, leak=True,
                            witness=(i % 8 == 5), replay_witness=(i % 96 == 5),
                            sample={"history": [dict(op=OPN[o], key=KEYN[k] if o in (0, 1, 5) else None, size_or_source=sz) for o, k, sz in sq],
                                    "manager (min_size, extra_size)": [mn, ex], "values": "symbolic"} if i % 120 == 5 else None))
    meta = {"bounds": {"history_length": "2 (full alphabet of %d atoms) and 3 (reduced alphabet of %d atoms)" % (len(alpha), len(small)),
                       "keys": KEYN, "value_octets": "0..2", "manager_configs": CFGS, "queries": len(qs)},
            "exhaustive": True,
            "rule": "every valid history over the stated atom alphabet is one query (quick: one of the 3 manager configurations per history, "
                    "rotating; thorough: all 3); validity = set-from-own-storage has a present source",
            "assumptions": ["int64 values != INT64_MIN (asserted precondition of the sign-magnitude codec)", "string characters concrete",
                            "shims uatomic_seq.h / upool_depth0.h, static managers, fprestrict"],
            "outside": ["values larger than 2 octets (up to 64 KiB)", "float attributes", "histories longer than 3 operations",
                        "uref_attr.h / uref_flow.h wrappers"]}
    return qs, meta
