from vlib.core import Query

CADICAL = ["--sat-solver", "cadical"]
DV = ["sys", "prog", "orig"]
DT = ["cr", "dts", "pts"]
W = ["rap", "cr", "dts", "pts"]

CLAIM = {
    "text": "Bounded model checking of the real uref_clock.h / uref.h accessors on a fully symbolic struct uref (all 2^64 values of every "
            "date, delay and flag word, including the UINT64_MAX 'unset' sentinel): (1) each of the 12 getters (rap/cr/dts/pts x "
            "sys/prog/orig) succeeds exactly when, and returns exactly what, an independent delay-chain reference says, so dts = cr + "
            "cr_dts_delay, pts = dts + dts_pts_delay, rap = cr - rap_cr_delay mod 2^64 whichever type is stored, and reading changes "
            "nothing; (2) from an arbitrary state, one operation of each kind: set reads back as set, rebase / get / dup change no date "
            "that could be read before (all three domains), failed operations change nothing, set_rap is accepted only at or before the "
            "clock reference, delete/add affect only their domain. Since every struct value is a legal state the single step is an "
            "inductive step covering histories of any length. SAT (CaDiCaL) verdict per case; complete case split on (operation, domain, type).",
    "note": "Trusted: CBMC 6.11 C semantics; the 15-line reference in the harness. uref_dup checked with no ubuf/udict attached. "
            "Native ASan/UBSan replay of witnesses and counterexamples against the real headers.",
    "technique": "CBMC bounded model checking of real C (goto-cc) at full 64-bit width: differential against a reference + inductive step "
                 "from an arbitrary symbolic state, case-split on operation/domain/type, CaDiCaL back end",
}


def build(tier):
    qs = []
    # DIFF: one query per (domain, wanted type); state fully symbolic in each.
    for dv in range(3):
        for w in range(4):
            qs.append(Query(name="diff_get_%s_%s" % (W[w], DV[dv]), harness="C11_clock.c",
                            defines=["MODE_DIFF", "CDV=%d" % dv, "CW=%d" % w], unwind=5, timeout=280, backend=CADICAL,
                            replay_witness=(dv, w) in ((1, 3), (2, 0)),
                            sample={"mode": "arbitrary 64-bit uref state; uref_clock_get_%s_%s vs delay-chain reference + algebra" % (W[w], DV[dv])}
                            if (dv, w) == (1, 3) else None))
    # STEP: arbitrary state + one operation; operation kind / domain / type are the case split.
    ops = [(0, "set", True), (1, "rebase", True), (2, "set_rap", False), (3, "delete", False), (4, "add", False)]
    for op, nm, has_dt in ops:
        for dv in range(3):
            for dt in (range(3) if has_dt else [0]):
                n = "step_%s_%s%s" % (nm, (DT[dt] + "_") if has_dt else "", DV[dv])
                qs.append(Query(name=n, harness="C11_clock.c",
                                defines=["MODE_STEP", "COP=%d" % op, "CDV=%d" % dv, "CDT=%d" % dt], unwind=5,
                                timeout=280, backend=CADICAL, leak=True,
                                replay_witness=(dv == 1 and dt in (0, 2)),
                                sample={"mode": "arbitrary state, then uref_clock_%s; all 12 getters before/after" % n[5:]}
                                if (op, dv, dt) in ((1, 1, 2), (2, 1, 0)) else None))
    qs.append(Query(name="step_dup", harness="C11_clock.c", defines=["MODE_STEP", "COP=5", "CDV=0", "CDT=0"], unwind=5,
                    timeout=280, backend=CADICAL, leak=True,
                    sample={"mode": "arbitrary state, then uref_dup; 12 getters of the copy vs the original"}))
    if tier == "thorough":
        # cross-check of the case split: selectors left symbolic (one query covers all cases), other back end
        qs.append(Query(name="diff_all_symbolic", harness="C11_clock.c", defines=["MODE_DIFF"], unwind=5, timeout=1500,
                        backend=CADICAL, replay_witness=False))
        for op, nm, has_dt in ops:
            qs.append(Query(name="step_%s_symbolic_domain" % nm, harness="C11_clock.c",
                            defines=["MODE_STEP", "COP=%d" % op], unwind=5, timeout=2400, backend=CADICAL, leak=True,
                            replay_witness=False))
    meta = {
        "bounds": {"width": "full 64-bit, all values incl. UINT64_MAX (unset)", "state": "every value of flags/dates/delays",
                   "steps": "1 from an arbitrary state (inductive: every state is a valid state, so histories of any length "
                            "are covered for the per-operation clauses)",
                   "case_split": "operation kind x clock domain x date type (complete enumeration: %d cases); everything else symbolic" % len(qs),
                   "unwind": 5},
        "exhaustive": False,
        "assumptions": ["delay value UINT64_MAX is the documented 'unset' sentinel (a recorded RAP whose delay would be "
                        "UINT64_MAX is not required to read back)",
                        "uref_dup decided with ubuf == NULL and udict == NULL (dictionary duplication is C10, buffer duplication C02)",
                        "SAT back end: CaDiCaL (MiniSat needs > 80 s on the same formulas)"],
        "outside": ["uref_clock attributes stored in the dictionary (duration, rate, latency...)",
                    "cross-uref comparisons (uref_clock_cmp_*)"],
    }
    return qs, meta
