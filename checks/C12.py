import itertools
from vlib.core import Query
from checks import pipeseq as ps

OPN = ["register R0", "register R1", "unregister R0", "unregister R1", "connect A->B", "disconnect A", "connect B->S0", "connect B->S1",
       "disconnect B", "S0 answers", "S1 answers"]

CLAIM = {
    "text": "Bounded model checking of the real request plumbing -- urequest.h proxies, upipe_register_request / unregister, and "
            "upipe_helper_output.h (register_output_request, alloc / free_output_proxy, the unregister-all / re-register loop of "
            "set_output, clean_output) as expanded in two real upipe_idem pipes chained A -> B in front of two recording sinks -- under "
            "every listed sequence of register / unregister (two requests) / connect / disconnect / replace output (at either pipe) / "
            "provider answers with a SYMBOLIC 64-bit value. After every operation: a registered request is lodged, through its proxies, "
            "exactly once with the sink the chain currently ends at and with nobody else; nothing of an unregistered request is lodged "
            "anywhere; a sink is only asked to withdraw what is lodged with it; an answer reaches the original requester's callback exactly "
            "once, with the provider's value; after unregister the callback is never invoked again. At the end everything is released and "
            "all proxies are freed (memory-leak check).",
    "note": "Trusted: as C04. Bounds: chain of 2 pipes, 2 requests of type sink-latency, histories of <= 4-5 operations. Not covered: the "
            "out-of-band request path across upipe_queue_sink / upipe_queue_source (threads: see C06 not_applicable), "
            "helper_ubuf_mgr / uref_mgr / uclock / flow_format requesters, probes as providers (uprobe_ubuf_mem etc.), bin pipes.",
    "technique": "CBMC bounded model checking of real C pipes with a request-routing invariant checked after every operation; complete "
                 "enumeration of valid operation sequences, symbolic answer values",
}


def valid(seq):
    reg = [False, False]
    for o in seq:
        if o in (0, 1):
            if reg[o]:
                return False
            reg[o] = True
        elif o in (2, 3):
            if not reg[o - 2]:
                return False
            reg[o - 2] = False
    return True


def build(tier):
    quick = tier == "quick"
    if quick:
        seqs = [list(t) for t in itertools.product([0, 2, 4, 5, 6, 7, 9], repeat=3)]
        seqs += [[0, 4, 6, 9], [4, 6, 0, 1, 9, 2, 9], [0, 4, 6, 7, 10, 9], [0, 4, 6, 5, 9, 4, 9], [6, 4, 0, 8, 9, 6, 9], [0, 1, 4, 7, 3, 10],
                 [0, 6, 4, 9, 2, 9], [4, 0, 6, 7, 6, 9, 10], [0, 4, 6, 2, 0, 9], [1, 4, 6, 9, 8, 7, 10]]
    else:
        seqs = [list(t) for k in (1, 2, 3) for t in itertools.product(range(11), repeat=k)]
        seqs += [list(t) for t in itertools.product([0, 1, 2, 4, 5, 6, 7, 9, 10], repeat=4)]
        seqs += [[0, 4, 6] + list(t) for t in itertools.product([1, 2, 5, 4, 7, 8, 9, 10], repeat=3)]
    seqs = [s for s in seqs if valid(s)]
    seen, qs = set(), []
    for i, sq in enumerate(seqs):
        n = "req_" + "-".join(map(str, sq))
        if n in seen:
            continue
        seen.add(n)
        qs.append(Query(name=n, harness="C12_requests.c",
                        defines=["OPS=" + ",".join(map(str, sq)), "VERIF_POOL_NO_MGR_REF", "WITNESS_ANSWERS=0"], shims=ps.SHIMS,
                        unwind=max(8, len(sq) + 2), unwindset=ps.UW, fp_restrict=True, timeout=280 if quick else 900, leak=True,
                        replay_witness=(i % 60 == 9),
                        sample={"operations": [OPN[o] for o in sq], "answer_value": "symbolic 64-bit"} if i % 90 == 9 else None))
    meta = {"bounds": {"chain": "2 real pipes + 2 sinks", "requests": 2, "sequence_length": "3 (+10 longer scenarios)" if quick else "<= 4 (and 3 + 3)",
                       "sequences": len(qs)},
            "exhaustive": True,
            "rule": "every valid sequence (register only an unregistered request, unregister only a registered one) over the stated alphabet "
                    "and length is one query",
            "assumptions": ps.COMMON_ASSUME[1:] + ["the requester unregisters its requests before releasing the pipes (ownership rule of urequest)"],
            "outside": ["requests crossing a thread queue (qsink / qsrc out-of-band path)", "chains longer than 2 pipes", "probes as providers",
                        "helper_ubuf_mgr / helper_uref_mgr / helper_uclock / helper_flow_format"]}
    return qs, meta
