import itertools
from vlib.core import Query
from checks import pipeseq as ps
from checks import C06

OPN = ["register R0", "register R1", "unregister R0", "unregister R1", "connect A->B", "disconnect A", "connect B->S0", "connect B->S1",
       "disconnect B", "S0 answers", "S1 answers"]

CLAIM = {
    "text": "Bounded model checking of the real request plumbing -- urequest.h proxies, upipe_register_request / unregister, and "
            "upipe_helper_output.h (register_output_request, alloc / free_output_proxy, the unregister-all / re-register loop of "
            "set_output, clean_output) as expanded in two real upipe_idem pipes chained A -> B in front of two recording sinks -- under "
            "every listed sequence of register / unregister (two requests) / connect / disconnect / replace output (at either pipe) / "
            "provider answers with a SYMBOLIC 64-bit value. After every operation: a registered request is lodged, through its proxies, "
            "exactly once with the sink the chain currently ends at and with nobody else; nothing of an unregistered request is lodged "
            "anywhere; a sink is only asked to withdraw what is lodged with it; an answer reaches the original requester's callback exactly "
            "once, with the provider's value; after unregister the callback is never invoked again. At the end everything is released and "
            "all proxies are freed (memory-leak check). ACROSS A THREAD QUEUE (real upipe_queue_sink / upipe_queue_source in "
            "harness/C06_queue.c, the two event loops sequentialised at callback granularity): a request registered on the queue sink is "
            "lodged with the provider behind the queue source, the provider's answer reaches the original requester with its value, an "
            "answer still travelling when the request is unregistered is dropped (callback never invoked after unregister), and after "
            "teardown nothing stays lodged -- for every placement of the out-of-band callbacks between register / answer / unregister.",
    "note": "Trusted: as C04. Bounds: chain of 2 pipes, 2 requests of type sink-latency, histories of <= 4-5 operations. Across the queue: one request, callback granularity (see C06's note). Not covered: "
            "helper_ubuf_mgr / uref_mgr / uclock / flow_format requesters, probes as providers (uprobe_ubuf_mem etc.), bin pipes.",
    "technique": "CBMC bounded model checking of real C pipes with a request-routing invariant checked after every operation; complete "
                 "enumeration of valid operation sequences, symbolic answer values",
}


def valid(seq):
    reg = [False, False]
    for o in seq:
        if o in (0, 1):
            if reg[o]:
                return False
            reg[o] = True
        elif o in (2, 3):
            if not reg[o - 2]:
                return False
            reg[o - 2] = False
    return True


def build(tier):
    quick = tier == "quick"
    if quick:
        seqs = [list(t) for t in itertools.product([0, 2, 4, 5, 6, 7, 9], repeat=3)]
        seqs += [[0, 4, 6, 9], [4, 6, 0, 1, 9, 2, 9], [0, 4, 6, 7, 10, 9], [0, 4, 6, 5, 9, 4, 9], [6, 4, 0, 8, 9, 6, 9], [0, 1, 4, 7, 3, 10],
                 [0, 6, 4, 9, 2, 9], [4, 0, 6, 7, 6, 9, 10], [0, 4, 6, 2, 0, 9], [1, 4, 6, 9, 8, 7, 10]]
    else:
        seqs = [list(t) for k in (1, 2, 3) for t in itertools.product(range(11), repeat=k)]
        seqs += [list(t) for t in itertools.product([0, 1, 2, 4, 5, 6, 7, 9, 10], repeat=4)]
        seqs += [[0, 4, 6] + list(t) for t in itertools.product([1, 2, 5, 4, 7, 8, 9, 10], repeat=3)]
    seqs = [s for s in seqs if valid(s)]
    seen, qs = set(), []
    for i, sq in enumerate(seqs):
        n = "req_" + "-".join(map(str, sq))
        if n in seen:
            continue
        seen.add(n)
        qs.append(Query(name=n, harness="C12_requests.c",
                        defines=["OPS=" + ",".join(map(str, sq)), "VERIF_POOL_NO_MGR_REF", "WITNESS_ANSWERS=0"], shims=ps.SHIMS,
                        unwind=max(8, len(sq) + 2), unwindset=ps.UW, fp_restrict=True, timeout=280 if quick else 900, leak=True,
                        replay_witness=(i % 60 == 9),
                        sample={"operations": [OPN[o] for o in sq], "answer_value": "symbolic 64-bit"} if i % 90 == 9 else None))
    # the same rule across a thread queue (harness/C06_queue.c: real queue sink + queue source, mock event loops, eventfd
    # model): register on the sink / the provider behind the source answers / unregister, with the out-of-band callbacks
    # of both loops (8 consumer, 15 producer) placed everywhere between them
    QB = [[8], [15], [8, 15], [8, 14, 15]]
    qsched = C06.schedules([12, 14, 13, 4], QB[:3] if not quick else QB[:2], 2) + C06.schedules([0, 2, 12, 14, 2, 13, 4], QB[:2], 1)
    # unregister then register again while an answer to the first registration is still travelling
    qsched += [[12, 8, 14, 13, 12, 15, 8, 13, 4], [12, 8, 14, 13, 12, 8, 15, 14, 15, 13, 4], [12, 8, 14, 15, 13, 12, 8, 14, 15, 13, 4], [12, 8, 13, 12, 14, 8, 15, 13, 4],
               [0, 2, 12, 8, 14, 13, 7, 12, 15, 8, 14, 15, 13, 4]]
    if not quick:
        qsched += C06.schedules([12, 14, 13, 4], QB, 3) + C06.schedules([12, 14, 13, 12, 14, 13, 4], QB[:3], 2)
    for i, ops in enumerate(qsched):
        n = "qreq_" + "-".join(map(str, ops))
        if n in seen:
            continue
        seen.add(n)
        qs.append(C06.q(n, ops, 1, timeout=280 if quick else 900, replay=(i % 20 == 3), sample=(i % 40 == 3)))
    meta = {"bounds": {"chain": "2 real pipes + 2 sinks", "requests": 2, "sequence_length": "3 (+10 longer scenarios)" if quick else "<= 4 (and 3 + 3)",
                       "sequences": len(qs)},
            "exhaustive": True,
            "rule": "every valid sequence (register only an unregistered request, unregister only a registered one) over the stated alphabet "
                    "and length is one query",
            "assumptions": ps.COMMON_ASSUME[1:] + ["the requester unregisters its requests before releasing the pipes (ownership rule of urequest)"],
            "outside": ["interleavings finer than a callback across the queue", "chains longer than 2 pipes", "probes as providers",
                        "helper_ubuf_mgr / helper_uref_mgr / helper_uclock / helper_flow_format"]}
    return qs, meta
