from vlib.core import Query

SHIMS = ["uatomic_seq.h", "upool_depth0.h"]

CLAIM = {
    "text": "Bounded model checking of the real lib/upipe/upump_common.c driven through the public upump_*/upump_blocker_* API over a "
            "mock loop back end that mirrors upump_ev.c's glue. Inductive step: every abstract pump state (started, status, 0..3 blockers) "
            "is built by real calls from symbolic choices, then ONE symbolic operation (start, stop, restart, set_status, blocker alloc, "
            "blocker free, loop dispatch with a callback that does nothing / stops itself / drops the owner's last reference, free) is "
            "applied and compared with a 3-variable reference automaton: the watcher is registered in the loop exactly when started and no "
            "blocker is held; the loop is never asked to start an active or stop an inactive watcher; the keep-alive flag is balanced; free "
            "notifies every outstanding blocker exactly once; the callback never runs stopped/blocked/freed; dispatch keeps the owner alive "
            "across the callback (use-after-free and leaks are CBMC memory checks). Plus all sequences of K operations from init.",
    "note": "Trusted: CBMC 6.11; the mock back end (upump_mock.h, a copy of upump_ev.c's control/alloc/free glue with libev replaced by a flag); "
            "uatomic_seq.h / upool_depth0.h in the CBMC build (native replays use the real headers with pool depth 0). libev and "
            "upump_ev.c's real_start/stop/restart (external library) are not encoded. Allocation failure out of scope.",
    "technique": "CBMC bounded model checking of real C: inductive step from every abstract state + bounded operation sequences, reference automaton oracle",
}


KINDS = ["start", "stop", "restart", "set_status", "blk_alloc", "blk_free", "fire", "free"]


def valid_sequences(k, nslots=3):
    """All operation sequences of length k that are meaningful: alloc on a free slot, free of a held
    blocker, fire only while the reference automaton says active, nothing after free.  The filter only
    removes sequences whose harness assumptions would be false (they would pass vacuously)."""
    out = []

    def rec(seq, started, held, freed):
        if len(seq) == k or freed:
            if len(seq) == k or freed:
                out.append(list(seq))
            return
        for kind in range(8):
            idxs = [0]
            if kind == 4:
                free_slots = [i for i in range(nslots) if i not in held]
                idxs = free_slots[:1]           # blockers are interchangeable: lowest free slot
            elif kind == 5:
                idxs = sorted(held)
            elif kind == 6 and not (started and not held):
                continue
            for i in idxs:
                st, h, fr = started, set(held), False
                if kind in (0, 2):
                    st = True
                elif kind == 1:
                    st = False
                elif kind == 4:
                    h.add(i)
                elif kind == 5:
                    h.discard(i)
                elif kind == 6:
                    st = None               # callback may stop the pump (symbolic): both continuations
                elif kind == 7:
                    fr = True
                if st is None:
                    rec(seq + [kind * 4 + i], True, h, fr)
                else:
                    rec(seq + [kind * 4 + i], st, h, fr)
    rec([], False, set(), False)
    # de-duplicate (fire branches generate the same prefix twice)
    seen, res = set(), []
    for s in out:
        t = tuple(s)
        if t not in seen:
            seen.add(t)
            res.append(s)
    return res


def build(tier):
    quick = tier == "quick"
    qs = []
    n = 0
    for nb in range(4):
        for bf in ((0, 1) if nb else (1,)):
            for sr in (0, 2):
                for cop in range(8):
                    if cop == 4:
                        idxs = [nb] if nb < 4 else []
                    elif cop == 5:
                        idxs = list(range(nb))
                    else:
                        idxs = [0]
                    for idx in idxs:
                        n += 1
                        qs.append(Query(name="step_nblk%d_bf%d_sr%d_%s%d" % (nb, bf, sr, KINDS[cop], idx), harness="C13_pump.c",
                                        defines=["MODE_STEP", "NBLK=%d" % nb, "BF=%d" % bf, "SR=%d" % sr, "COP=%d" % cop, "IDX=%d" % idx],
                                        unwind=6, shims=SHIMS, leak=True, timeout=280,
                                        witness=(cop != 6), replay_witness=(n % 16 == 1),
                                        sample={"mode": "inductive step", "state": {"blockers": nb, "started": "symbolic", "status": "symbolic",
                                                "blockers_taken_before_start": bool(bf), "started_via": "restart" if sr else "start"},
                                                "operation": KINDS[cop], "slot": idx, "operation_flag": "symbolic"} if n % 40 == 1 else None))
    for sr in (0, 2):
        qs.append(Query(name="dispatch_owner_sr%d" % sr, harness="C13_pump.c", defines=["MODE_DISPATCH", "SR=%d" % sr], unwind=6,
                        shims=SHIMS, leak=True, timeout=280,
                        sample={"mode": "loop fires a started pump whose callback drops the owner's last reference (owner's destructor frees the pump)"}))
    k = 3 if quick else 5
    seqs = valid_sequences(k)
    for i, sq in enumerate(seqs):
        qs.append(Query(name="seq_" + "_".join("%s%d" % (KINDS[c // 4], c % 4) for c in sq), harness="C13_pump.c",
                        defines=["MODE_SEQ", "OPS=" + ",".join(map(str, sq))], unwind=max(6, k + 1), shims=SHIMS, leak=True,
                        timeout=280, witness=(i % 25 == 0), replay_witness=(i % 100 == 0),
                        sample={"mode": "sequence from a fresh pump", "ops": ["%s(%d)" % (KINDS[c // 4], c % 4) for c in sq],
                                "flags": "symbolic (status value, callback behaviour)"} if i % 300 == 7 else None))
    meta = {
        "bounds": {"blockers": "0..3 held at once (4 slots)", "step": "1 operation from every abstract state",
                   "sequence_ops": k, "sequences": len(seqs),
                   "pump_type": "idler (the common layer is type-agnostic)"},
        "exhaustive": True,
        "rule": "complete case split on the discrete selectors (operation kinds, blocker slot, construction order); sequences are all "
                "meaningful ones up to blocker symmetry (driver-side filter removes only sequences whose harness assumptions are false); "
                "started/status/flag values stay symbolic in each query",
        "assumptions": ["blocker callbacks free their blocker (what upipe_helper_input and the queue sink do)",
                        "the loop only fires active watchers (mock_fire), i.e. libev semantics",
                        "sequential harness shims uatomic_seq.h, upool_depth0.h",
                        "blocker slots are interchangeable: alloc uses the lowest free slot"],
        "outside": ["libev glue in upump_ev.c (ev_* calls are external)", "more than 4 simultaneous blockers", "ecore back end"],
    }
    return qs, meta
