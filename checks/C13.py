from vlib.core import Query

SHIMS = ["uatomic_seq.h", "upool_depth0.h"]

CLAIM = {
    "text": "Bounded model checking of the real lib/upipe/upump_common.c driven through the public upump_*/upump_blocker_* API over a "
            "mock loop back end that mirrors upump_ev.c's glue. Inductive step: every abstract pump state (started, status, 0..3 blockers) "
            "is built by real calls from symbolic choices, then ONE symbolic operation (start, stop, restart, set_status, blocker alloc, "
            "blocker free, loop dispatch with a callback that does nothing / stops itself / drops the owner's last reference, free) is "
            "applied and compared with a 3-variable reference automaton: the watcher is registered in the loop exactly when started and no "
            "blocker is held; the loop is never asked to start an active or stop an inactive watcher; the keep-alive flag is balanced; free "
            "notifies every outstanding blocker exactly once; the callback never runs stopped/blocked/freed; dispatch keeps the owner alive "
            "across the callback (use-after-free and leaks are CBMC memory checks). Plus all sequences of K operations from init.",
    "note": "Trusted: CBMC 6.11; the mock back end (upump_mock.h, a copy of upump_ev.c's control/alloc/free glue with libev replaced by a flag); "
            "uatomic_seq.h / upool_depth0.h in the CBMC build (native replays use the real headers with pool depth 0). libev and "
            "upump_ev.c's real_start/stop/restart (external library) are not encoded. Allocation failure out of scope.",
    "technique": "CBMC bounded model checking of real C: inductive step from every abstract state + bounded operation sequences, reference automaton oracle",
}


def build(tier):
    quick = tier == "quick"
    qs = []
    for nb in range(4):
        qs.append(Query(name="step_nblk%d" % nb, harness="C13_pump.c",
                        defines=["MODE_STEP", "NBLK=%d" % nb, "WITNESS_OP=%d" % [6, 5, 7, 3][nb]],
                        unwind=6, shims=SHIMS, leak=True, timeout=280,
                        sample={"mode": "state (started?, status?, %d blockers, blockers before/after start?) all symbolic, then one symbolic op of 8 kinds" % nb}))
    for k in ([4] if quick else [5, 6]):
        qs.append(Query(name="seq_k%d" % k, harness="C13_pump.c", defines=["KOPS=%d" % k], unwind=max(6, k + 1),
                        shims=SHIMS, leak=True, timeout=280 if quick else 2400,
                        sample={"mode": "all sequences of %d symbolic operations from a fresh pump" % k}))
    meta = {
        "bounds": {"blockers": "0..3 (4 slots)", "step": "1 operation from every abstract state", "sequence_ops": 4 if quick else 6,
                   "pump_type": "idler (the common layer is type-agnostic)"},
        "assumptions": ["blocker callbacks free their blocker (what upipe_helper_input and the queue sink do)",
                        "the loop only fires active watchers (mock_fire), i.e. libev semantics",
                        "sequential harness shims uatomic_seq.h, upool_depth0.h"],
        "outside": ["libev glue in upump_ev.c (ev_* calls are external)", "more than 4 simultaneous blockers",
                    "ecore back end"],
    }
    return qs, meta
