from vlib.core import Query
from checks import pipeseq as ps

UW = [u for u in ps.UW if not u.startswith(("ubuf_block_common_clean", "ubuf_block_get", "ubuf_block_delete", "ubuf_block_common_dup",
                                            "ubuf_free", "ubuf_block_mem_free", "ubuf_dup"))] + \
     ["ubuf_free:3", "ubuf_block_mem_free:3", "ubuf_dup:3"]

CLAIM = {
    "text": "Bounded model checking of the real upipe_chunk_stream.c and upipe_aggregate.c (with upipe_helper_uref_stream.h append / "
            "extract / consume and the output helpers) over the real block manager: a stream of 5-6 SYMBOLIC octets is fed to two "
            "instances under two different cuttings into buffers (every listed cutting incl. empty, one-octet and two-segment buffers, against the "
            "uncut stream) for every listed (MTU, alignment), then both are released. Asserted: outputs are, in order and without "
            "overlap, octets of the input; chunk_stream outputs every accepted octet exactly once but for a tail shorter than the "
            "alignment, every unit is a multiple of the alignment, <= MTU, full-size except the last, never empty, and the unit sequence "
            "is the same for both cuttings (cut independence); aggregate outputs every accepted octet once, units <= MTU; flush and "
            "release terminate (unwinding assertions on their loops, native replay under a 10 s alarm). TS SYNCHRONISATION (the real "
            "upipe_ts_sync.c, packet size configured to 2-3 octets, sync count 2-3, streams of 10-11 octets): for every listed PATTERN of "
            "sync words and two cuttings, the units are exactly those of a reference synchroniser (whole packets starting with the sync "
            "byte where the configured number of sync words stand one packet apart, plus the synchronised tail at release), carry the "
            "input octets, and are the same for both cuttings. This part is a CONCRETE bounded enumeration executed by CBMC (memory "
            "safety + oracle): no symbolic data, see the note.",
    "note": "Trusted: as C04. Bounds: 5-6 octets, <= 4 buffers per cutting, the listed MTU/alignment pairs (the sizes decide the heap "
            "shape, so they are enumerated; octets are symbolic). ts_sync compiles against shim/include/bitstream/mpeg/ts.h (it needs only TS_SIZE) and its packet "
            "size is set to 2-3 octets through the pipe's own set_output_size; its streams are concrete (sync-word pattern enumerated, other "
            "octets position-coded) because symbolic octets make the scan position symbolic (no verdict in 600 s). Not covered: ts_check / "
            "ts_align, real 188-octet packets, longer streams. Cut entries >= 100 are two-segment buffers.",
    "technique": "CBMC bounded model checking of real C pipes: two instances under two cuttings of one symbolic stream, conservation / "
                 "cut-independence oracles, unwinding assertions for termination",
}

CUTS6 = [[3, 3], [1, 203], [5, 1], [1, 5], [2, 2, 2], [2, 101, 2], [1, 0, 5], [4, 2], [0, 6], [1, 1, 4], [2, 3, 1], [1, 1, 1, 3], [102, 201]]
CUTS5 = [[2, 3], [1, 202], [4, 1], [1, 4], [1, 0, 4], [2, 2, 1], [0, 5], [1, 1, 1, 2]]


def build(tier):
    quick = tier == "quick"
    qs = []
    cfgs = [(4, 2), (3, 2), (3, 1), (5, 3)] if quick else [(4, 2), (3, 2), (3, 1), (2, 1), (5, 3), (6, 4), (5, 2), (6, 5)]
    for (mtu, al) in cfgs:
        for nb, cuts in ((6, CUTS6), (5, CUTS5)):
            for i, c in enumerate(cuts):
                if quick and i % 2 and (mtu, al) != (3, 2):
                    continue
                for flush in ((False,) if quick else (False, True)):
                    qs.append(Query(name="chunk_mtu%d_align%d_nb%d_cut%s%s" % (mtu, al, nb, "-".join(map(str, c)), "_flush" if flush else ""),
                                    harness="C14_rechunk.c",
                                    defines=["PIPE=1", "MTU=%d" % mtu, "ALIGN=%d" % al, "NB=%d" % nb, "CUT_A=%d" % nb,
                                             "CUT_B=" + ",".join(map(str, c)), "VERIF_POOL_NO_MGR_REF"] + (["FLUSH_FIRST"] if flush else []),
                                    shims=ps.SHIMS, unwind=10, unwindset=UW, fp_restrict=True, timeout=280 if quick else 900, leak=True,
                                    replay_witness=(i == 0),
                                    sample={"pipe": "chunk_stream", "mtu": mtu, "align": al, "stream": "%d symbolic octets" % nb,
                                            "cutting_A": [nb], "cutting_B": c, "then": "release both (flush)"} if i == 0 else None))
    for mtu in ((3, 4) if quick else (2, 3, 4, 6)):
        for i, c in enumerate(CUTS6 + [[6], [0, 3, 3]]):
            if quick and i % 2:
                continue
            qs.append(Query(name="agg_mtu%d_cut%s" % (mtu, "-".join(map(str, c))), harness="C14_rechunk.c",
                            defines=["PIPE=2", "MTU=%d" % mtu, "NB=6", "CUT_A=" + ",".join(map(str, c)), "CUT_B=6", "VERIF_POOL_NO_MGR_REF"],
                            shims=ps.SHIMS, unwind=10, unwindset=UW, fp_restrict=True, timeout=280, leak=True, witness=(mtu >= max(x if x < 100 else x // 100 + x % 100 for x in c) and max(c) > 0),
                            replay_witness=False,
                            sample={"pipe": "aggregate", "mtu": mtu, "cutting": c, "stream": "6 symbolic octets"} if i == 0 else None))
    # TS synchronisation (harness/C14_tssync.c): the real upipe_ts_sync.c with the packet size configured to 2-3 octets and the
    # sync count to 2-3; the stream is a PATTERN of sync words (discrete selector) with position-coded other octets -- no symbolic
    # data here: symbolic octets make the scan position symbolic (no verdict in 600 s, also with octets masked away from 0x47)
    TS_UW = [u for u in UW if not u.startswith(("probe_check", "env_count"))] + ["ubuf_block_common_clean.0:8", "ubuf_block_common_dup.0:8", "memchr.0:20"]
    TSCUTS = {10: [[3, 4, 3], [5, 5], [1, 9], [2, 2, 2, 2, 2], [4, 203, 1], [7, 3]], 11: [[4, 7], [3, 3, 5], [6, 104], [1, 1, 9], [11]]}
    tsplan = []
    for (nb, size, nsync, step) in ((10, 2, 3, 13 if quick else 1), (11, 3, 2, 61 if quick else 3), (10, 2, 2, 97 if quick else 5)):
        for pat in range(1, 1 << nb, step):
            bits = [(pat >> i) & 1 for i in range(nb)]
            if sum(bits) < 2:
                continue
            tsplan.append((bits, size, nsync, TSCUTS[nb][pat % len(TSCUTS[nb])]))
    # streams with two partial sync runs in front of a full one
    for bits in ([1, 0, 1, 0, 0, 1, 0, 1, 0, 1], [1, 0, 1, 1, 0, 1, 0, 1, 0, 0], [0, 1, 0, 1, 0, 0, 1, 0, 1, 0], [1, 0, 1, 0, 0, 1, 0, 1, 0, 0]):
        tsplan.append((bits, 2, 3, [10]))
        tsplan.append((bits, 2, 3, [3, 4, 3]))
    for i, (bits, size, nsync, cb) in enumerate(tsplan):
        nb = len(bits)
        qs.append(Query(name="tssync_p%s_s%d_n%d_cut%s" % ("".join(map(str, bits)), size, nsync, "-".join(map(str, cb))), harness="C14_tssync.c",
                        defines=["PATTERN=" + ",".join(map(str, bits)), "SIZE=%d" % size, "NSYNC=%d" % nsync, "CUT_A=%d" % nb if cb != [nb] else "CUT_A=1,%d" % (nb - 1),
                                 "CUT_B=" + ",".join(map(str, cb)), "WITNESS_UNITS=0", "VERIF_POOL_NO_MGR_REF", "ENV_MAXIN=8"],
                        shims=ps.SHIMS, unwind=16, unwindset=TS_UW, fp_restrict=True, timeout=280 if quick else 900, leak=True, replay_witness=(i % 40 == 0),
                        sample={"pipe": "ts_sync", "packet size": size, "sync count": nsync, "sync words at": [k for k, b in enumerate(bits) if b],
                                "stream octets": nb, "cutting_B": cb, "symbolic": "nothing (concrete enumeration run by CBMC)"} if i % 80 == 0 else None))
    meta = {"bounds": {"stream_octets": [5, 6], "configs_mtu_align": cfgs, "cuttings": CUTS6 + CUTS5, "buffers_per_cutting": "<= 4"},
            "exhaustive": False,
            "rule": "one query per (pipe, configuration, stream length, cutting); sizes are enumerated (they decide the heap shape), octets symbolic",
            "assumptions": ps.COMMON_ASSUME[1:] + ["aggregate drops empty and oversized input units (documented by its warning); they are not 'accepted' octets"],
            "outside": ["ts_check / ts_align", "188-octet packets (ts_sync is run with 2-3 octet packets)", "streams longer than 6 octets", "mid-stream reconfiguration"]}
    return qs, meta
