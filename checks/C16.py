import itertools
from vlib.core import Query
from checks import pipeseq as ps

UW = [u for u in ps.UW if not u.startswith(("ubuf_free", "ubuf_block_mem_free", "ubuf_dup", "ubuf_block_common_clean", "ubuf_block_get",
                                            "ubuf_block_delete", "ubuf_block_common_dup"))] + ["ubuf_free:3", "ubuf_block_mem_free:3", "ubuf_dup:3"]

CLAIM = {
    "text": "Bounded model checking of the real section merger lib/upipe-ts/upipe_ts_psi_merge.c (with upipe_helper_sync / "
            "upipe_helper_output and the real block manager): sequences of 1-3 PSI sections (short form, bodies of 0-3 SYMBOLIC "
            "octets) are packed into TS payloads as ISO 13818-1 prescribes (unit-start flag and pointer_field wherever a section "
            "starts) for EVERY cutting into up to 3 (quick) / 4 (thorough) payloads -- including cuts inside the 3-octet header and "
            "several sections per payload -- with and without 0xff stuffing; the sink must receive exactly the original sections, in "
            "order, each once, complete and unmodified. A body octet equal to the stuffing value 0xff right where a section continues in the next payload "
            "is data, not stuffing. With a lost payload (the next one flagged as a discontinuity) every output must "
            "still be an original section, complete, in order and not repeated, and every section transmitted completely before the gap "
            "or starting at / after the next unit start must be output (resynchronisation). With a section whose header is impossible (long form "
            "announced with a length too short for extended header + CRC) the sections before it are output, nothing made of the "
            "corrupt octets is, and every section starting in a payload after the one where the bad header became complete is output.",
    "note": "lib/upipe-ts is not part of this image's baseline build because the external biTStream headers are absent; the merger "
            "compiles here against shim/include/bitstream/mpeg/psi.h (PSI_HEADER_SIZE, psi_get_length, psi_validate: 25 lines written "
            "from the standard -- trusted base, external dependency). Section HEADER octets are concrete (the merger branches on them; "
            "symbolic ones gave no verdict in 300 s), bodies symbolic. Not covered: upipe_ts_psi_split (filter / mask routing) and "
            "upipe_ts_psi_join, long-form sections (syntax indicator 1), section lengths beyond 3 octets of body (up to 4093), other "
            "kinds of corrupt headers (length above 4093 needs 12-bit lengths).",
    "technique": "CBMC bounded model checking of the real C merger against the generating sections; complete enumeration of cuttings "
                 "within the stated bound, symbolic section bodies",
}


def build(tier):
    quick = tier == "quick"
    qs = []
    secsets = [[2, 1], [1, 1, 1]] if quick else [[2, 1], [1, 1, 1], [0, 2], [3], [1, 0, 1]]
    maxcuts = 2 if quick else 3
    for secs in secsets:
        total = sum(3 + l for l in secs)
        for ncut in range(maxcuts + 1):
            for inner in itertools.combinations(range(1, total), ncut):
                cuts = [0] + list(inner) + [total]
                for stuff in ((0, 2) if (not quick or ncut <= 1) else (0,)):
                    disr = [0] + (list(range(1, len(cuts) - 1)) if (ncut >= 2 and stuff == 0 and (not quick or secs == secsets[0])) else [])
                    for d in disr:
                        if quick and d and sum(inner) % 3:
                            continue
                        nm = "psim_sec%s_cut%s_stuff%d_lost%d" % ("-".join(map(str, secs)), "-".join(map(str, cuts)), stuff, d)
                        qs.append(Query(name=nm, harness="C16_psim.c",
                                        defines=["SECTIONS=" + ",".join(map(str, secs)), "CUTS=" + ",".join(map(str, cuts)), "STUFF=%d" % stuff,
                                                 "DISRUPT=%d" % d, "VERIF_POOL_NO_MGR_REF"], shims=ps.SHIMS, unwind=20, unwindset=UW,
                                        fp_restrict=True, timeout=280 if quick else 900, leak=True, witness=(d == 0),
                                        replay_witness=(len(qs) % 40 == 3),
                                        sample={"section body lengths": secs, "payload boundaries (stream octets)": cuts, "stuffing octets": stuff,
                                                "lost payload": d or None, "bodies": "symbolic"} if len(qs) % 60 == 3 else None))
    # a body octet equal to the stuffing value 0xff exactly where a section continues in the next payload
    for secs in ([[2, 1], [3]] if quick else [[2, 1], [3], [1, 3, 1], [3, 2]]):
        total = sum(3 + l for l in secs)
        starts = [sum(3 + l for l in secs[:i]) for i in range(len(secs))]
        bodies = [p for i, st in enumerate(starts) for p in range(st + 3, st + 3 + secs[i])]
        for c in bodies:
            for extra in ([()] if quick else [()] + [(x,) for x in range(1, total) if x != c and x not in bodies]):
                cuts = sorted([0, c, total] + list(extra))
                nm = "psim_sec%s_cut%s_ff%d" % ("-".join(map(str, secs)), "-".join(map(str, cuts)), c)
                qs.append(Query(name=nm, harness="C16_psim.c",
                                defines=["SECTIONS=" + ",".join(map(str, secs)), "CUTS=" + ",".join(map(str, cuts)), "STUFF=0", "DISRUPT=0", "FF_AT=%d" % c,
                                         "VERIF_POOL_NO_MGR_REF"], shims=ps.SHIMS, unwind=20, unwindset=UW, fp_restrict=True,
                                timeout=280 if quick else 900, leak=True, witness=True, replay_witness=False,
                                sample={"section body lengths": secs, "payload boundaries (stream octets)": cuts,
                                        "body octet fixed to 0xff": c, "other body octets": "symbolic"} if c == bodies[0] and not extra else None))
    # corrupt header: section c carries an impossible header; every cutting into 2-3 payloads
    for secs in ([[1, 2, 1]] if quick else [[1, 2, 1], [2, 1, 1]]):
        total = sum(3 + l for l in secs)
        for c in range(1, len(secs)):
            for ncut in ((1, 2) if quick else (1, 2, 3)):
                for inner in itertools.combinations(range(1, total), ncut):
                    if quick and ncut == 2 and (inner[0] + inner[1]) % 3:
                        continue
                    cuts = [0] + list(inner) + [total]
                    nm = "psim_sec%s_cut%s_corrupt%d" % ("-".join(map(str, secs)), "-".join(map(str, cuts)), c)
                    qs.append(Query(name=nm, harness="C16_psim.c",
                                    defines=["SECTIONS=" + ",".join(map(str, secs)), "CUTS=" + ",".join(map(str, cuts)), "STUFF=0", "DISRUPT=0",
                                             "CORRUPT=%d" % c, "VERIF_POOL_NO_MGR_REF"], shims=ps.SHIMS, unwind=20, unwindset=UW,
                                    fp_restrict=True, timeout=280 if quick else 900, leak=True, witness=False,
                                    sample={"section body lengths": secs, "payload boundaries (stream octets)": cuts,
                                            "section with an impossible header": c, "bodies": "symbolic"} if len(qs) % 60 == 3 else None))
    meta = {"bounds": {"sections": secsets, "payloads": "1..%d" % (maxcuts + 1), "body_octets": "0-3"},
            "exhaustive": True,
            "rule": "every cutting of the section stream into the stated number of payloads is one query (x stuffing x lost payload)",
            "assumptions": ["biTStream accessors from shim/include/bitstream/mpeg/psi.h (trusted, external dependency)",
                            "section header octets concrete, short form", "sinks / probe / shims as for C04"],
            "outside": ["upipe_ts_psi_split", "upipe_ts_psi_join", "long-form sections", "sections longer than 6 octets", "announced lengths above 4093"]}
    return qs, meta
