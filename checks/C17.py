from vlib.core import Query
from checks import pipeseq as ps

CLAIM = {
    "text": "Bounded model checking of the part of C17 that builds in this image: lib/upipe-framers/upipe_h26x_common.c and "
            "uref_h26x.h (no external header needed) over the real block manager, uref_std and udict_inline. (1) "
            "upipe_h26xf_convert_frame A -> B -> A for every listed pair of encapsulations (Annex B 4-octet start codes, 1/2/4-octet "
            "length prefixes, raw NAL units as target) on frames of 1-3 NAL units with SYMBOLIC payload octets: after A -> B the frame is "
            "exactly the B encapsulation of the same payloads in the same order and the NAL offset attributes point at the units; "
            "after B -> A the original octets are back. (2) upipe_h26xf_stream_get removes exactly the emulation prevention octets "
            "(every 0x03 after two zero octets) from any stream of 7-8 symbolic octets cut into two segments. (3) "
            "upipe_h26xf_stream_ue / _se return what an independent reference decoder reads from any stream of symbolic octets "
            "(short code words up to the stated bound with fully symbolic octets; long code words of 24..31 leading zero bits -- the "
            "reader's second path, values 2^24-1 .. 2^32-2 -- with the escaped prefix as a discrete selector and symbolic suffix octets, "
            "in which further emulation prevention octets may fall).",
    "note": "The H.264 / H.265 framers themselves (cut independence, every access unit output, no read outside buffers on corrupt "
            "input) are NOT covered: upipe_h264_framer.c / upipe_h265_framer.c include <bitstream/mpeg/h264.h> / <bitstream/itu/h265.h>, "
            "which are absent from this image. Trusted: CBMC 6.11, the reference serialiser / decoder in the harness, a vsnprintf model "
            "for the formatted attribute names, shims as for C04. Exp-Golomb bound: <= 6 leading zeros with fully symbolic octets (symbolic "
            "prefixes make the bit reader expensive: 2-4 GB per query, out of memory at 23 GB for 24 leading zeros), 24..31 leading zeros "
            "with a concrete prefix.",
    "technique": "CBMC bounded model checking of real C against a reference serialiser / decoder; encapsulation pairs and sizes "
                 "enumerated, payload and stream octets symbolic",
}

UW = [u for u in ps.UW if not u.startswith(("ubuf_free", "ubuf_block_mem_free", "ubuf_dup", "ubuf_block_common_clean", "ubuf_block_get",
                                            "ubuf_block_delete", "ubuf_block_common_dup"))] + \
     ["ubuf_free:3", "ubuf_block_mem_free:3", "ubuf_dup:3", "upipe_h26xf_stream_get:3", "upipe_h26xf_stream_ue.0:5", "upipe_h26xf_stream_ue.1:33"]
ENC = {"nalu": "UREF_H26X_ENCAPS_NALU", "annexb": "UREF_H26X_ENCAPS_ANNEXB", "len1": "UREF_H26X_ENCAPS_LENGTH1",
       "len2": "UREF_H26X_ENCAPS_LENGTH2", "len4": "UREF_H26X_ENCAPS_LENGTH4"}


def q(name, defs, unwind, timeout=600, sample=None, stretch=False):
    return Query(name=name, harness="C17_h26x.c", defines=defs + ["VERIF_POOL_NO_MGR_REF"], shims=ps.SHIMS, unwind=unwind, unwindset=UW,
                 fp_restrict=True, timeout=timeout, replay_witness=True, sample=sample, stretch=stretch)


def build(tier):
    quick = tier == "quick"
    qs = []
    pairs = [("annexb", "len4"), ("len4", "annexb"), ("len1", "annexb"), ("annexb", "len2"), ("len2", "len4"), ("len1", "len4")]
    if not quick:
        pairs = [(a, b) for a in ("annexb", "len1", "len2", "len4") for b in ("annexb", "len1", "len2", "len4", "nalu") if a != b]
    for a, b in pairs:
        for sizes in ([[2, 1]] if quick else [[2, 1], [1], [1, 2, 1]]):
            qs.append(q("convert_%s_%s_%s" % (a, b, "-".join(map(str, sizes))),
                        ["MODE_CONVERT", "ENC_A=" + ENC[a], "ENC_B=" + ENC[b], "NAL_SIZES=" + ",".join(map(str, sizes))], 6 + sum(sizes) + 4 * len(sizes),
                        sample={"frame": "%d NAL units of %s symbolic octets" % (len(sizes), sizes), "A": a, "B": b, "check": "A->B then B->A"}
                        if (a, b) == ("annexb", "len4") else None))
    for nb, seg, lz in ([(3, 1, 4)] if quick else [(3, 1, 4), (3, 2, 4), (4, 2, 6)]):
        for signed in (False, True):
            qs.append(q("golomb_%s_nb%d_seg%d_lz%d" % ("se" if signed else "ue", nb, seg, lz),
                        ["MODE_GOLOMB", "NB=%d" % nb, "SEG0=%d" % seg, "MAXLZ=%d" % lz] + (["SIGNED"] if signed else []), 8 + lz // 2,
                        timeout=900 if quick else 3000, stretch=not quick and nb == 4,
                        sample={"stream": "%d symbolic octets + padding, cut at %d" % (nb, seg), "code word": "up to %d leading zero bits" % lz,
                                "reference": "strip emulation prevention octets, count leading zeros, read suffix"} if not signed else None))
    # long code words (24..31 leading zero bits: values 2^24-1 .. 2^32-2, the second decoding path of the reader): the prefix --
    # three zero octets, written 00 00 03 00 by an encoder -- and the octet B4 that ends it are discrete selectors, the
    # remaining 4-5 octets (where further escapes may fall) are symbolic
    longs = [(31, 1, False), (31, 1, True), (30, 2, False), (30, 3, False), (24, 0x80, False), (24, 0xff, False), (27, 0x15, True)]
    if not quick:
        longs = [(k, b4, False) for k in range(24, 32) for b4 in range(1 << (31 - k), 2 << (31 - k))] + [(31, 1, True), (24, 0xd5, True), (28, 0x0a, True)]
    for k, b4, signed in longs:
        qs.append(q("golomb_%s_long%d_b%02x" % ("se" if signed else "ue", k, b4),
                    ["MODE_GOLOMB", "NB=10", "SEG0=%d" % (3 + (k + b4) % 5), "MAXLZ=31", "LONGCODE=%d" % k, "B4=%d" % b4] + (["SIGNED"] if signed else []), 36,
                    timeout=900, sample={"stream": "00 00 03 00 %02x + 5 symbolic octets + padding" % b4, "code word": "%d leading zero bits" % k,
                                         "reference": "strip emulation prevention octets, count leading zeros, read suffix"} if (k, b4) == (31, 1) and not signed else None))
    for nb, seg in ([(7, 3)] if quick else [(7, 3), (7, 1), (8, 4)]):
        qs.append(q("epb_nb%d_seg%d" % (nb, seg), ["MODE_EPB", "NB=%d" % nb, "SEG0=%d" % seg], nb + 6, timeout=900,
                    sample={"stream": "%d symbolic octets cut at %d" % (nb, seg), "check": "stream_get == stream with every 0x03 after two zero octets removed"}))
    meta = {"bounds": {"exp_golomb": "code words with <= 4 (quick) / 6 leading zero bits, i.e. values up to 30 / 126, and 24..31 leading zero bits with concrete prefix", "nal_units_per_frame": "1-3",
                       "nal_payload_octets": "1-2", "stream_octets": "3-8, two segments"},
            "exhaustive": False,
            "rule": "one query per (encapsulation pair, NAL sizes) / (stream length, cut, code word bound); payload and stream octets symbolic",
            "assumptions": ["attribute names are formatted by a 15-line vsnprintf model (one %lu argument < 100)",
                            "Annex B frames use 4-octet start codes (the form for which the property promises an exact round trip)",
                            "shims uatomic_seq.h / upool_depth0.h, static managers, fprestrict"],
            "outside": ["the H.264 / H.265 framers (they need the absent bitstream headers)", "code words of 7..23 leading zero bits",
                        "NAL sizes overflowing a length prefix", "more than 3 NAL units"]}
    return qs, meta
