from vlib.core import Query

SHIMS = ["uatomic_seq.h", "upool_depth0.h"]

CLAIM = {
    "text": "Bounded model checking of the real ubits.h and ubuf_block_stream.h (over the real ubuf_block_mem manager): for ALL field "
            "widths/values and every buffer size 0..4*fields+1 the writer output equals an independent MSB-first reference packer, byte "
            "count = ceil(bits/8), the reader inverts it, too-small buffers / reads past the end are reported, and every memory access stays "
            "inside the exact-size buffer object (CBMC pointer checks). The block bit-stream reader is decided by induction on the number of "
            "fields (base: init_bits establishes the reader invariant for every start bit; step: from any invariant state one field of symbolic "
            "width returns the reference bits and re-establishes the invariant) for every 3-way segmentation of the bytes. SAT verdict over all "
            "values within the bounds; not a proof beyond them.",
    "note": "Trusted: CBMC 6.11 C semantics, harness reference packer/extractor (20 lines), uatomic_seq.h/upool_depth0.h shims in the CBMC "
            "build (native replays use the real headers). Bounds: 2 (quick) / 3 (thorough) writer fields, 3/4-octet segmented blocks, reader "
            "widths <= 24 as the code's own assertion requires. Allocation failure out of scope.",
    "technique": "CBMC bounded model checking of real C (goto-cc), case split on buffer size/segmentation, inductive step for the reader",
}


def build(tier):
    quick = tier == "quick"
    qs = []
    # part A: ubits writer + reader.  Buffer size is a discrete selector (case split, DESIGN 2.3b);
    # widths and values are symbolic inside every case.
    plan = [(2, range(0, 10))] if quick else [(2, range(0, 10)), (3, range(0, 14))]
    for nf, sizes in plan:
        for sz in sizes:
            qs.append(Query(name="ubits_nf%d_buf%d" % (nf, sz), harness="C18_ubits.c",
                            defines=["NF=%d" % nf, "BUFSZ=%d" % sz], unwind=34,
                            timeout=280 if quick else 1500,
                            witness=(sz >= nf * 4 - 2), replay_witness=(sz == nf * 4),
                            sample={"fields": nf, "widths": "symbolic 1..32", "values": "symbolic < 2^width",
                                    "buffer_size": sz} if sz in (0, nf * 4) else None))
    # part B: block bit-stream reader; inductive decomposition (see harness header).
    nb = 3 if quick else 4
    segs = [(a, b) for a in range(nb + 1) for b in range(nb + 1 - a)]
    UW = ["ref_get.0:33", "main.0:%d" % (nb + 2), "main.1:%d" % (nb + 2), "blk_new.0:%d" % (nb + 2)]
    first = True
    for (a, b) in segs:
        for sb in range(nb):
            qs.append(Query(name="bstream_base_nb%d_seg%d.%d_start%d" % (nb, a, b, sb), harness="C18_bstream.c",
                            defines=["NB=%d" % nb, "MODE_BASE", "SEG0=%d" % a, "SEG1=%d" % b, "START_BYTE=%d" % sb],
                            unwind=6, unwindset=UW, shims=SHIMS, leak=True, timeout=280,
                            replay_witness=(a, b, sb) == (1, 1, 1),
                            sample={"mode": "base: init_bits(start) establishes Inv", "octets": nb,
                                    "segments": [a, b, nb - a - b], "start_octet": sb, "start_bit": "symbolic 0..7"}
                            if (a, b, sb) == (1, 1, 1) else None))
        for c in range(nb + 1):
            for o in range(c + 1) if not quick else [0]:
                if o >= nb:
                    continue
                qs.append(Query(name="bstream_step_nb%d_seg%d.%d_o%d_c%d" % (nb, a, b, o, c), harness="C18_bstream.c",
                                defines=["NB=%d" % nb, "MODE_STEP", "SEG0=%d" % a, "SEG1=%d" % b, "OFF_O=%d" % o, "OFF_C=%d" % c],
                                unwind=6, unwindset=UW, shims=SHIMS, leak=True, timeout=280,
                                witness=(c >= 1 and c < nb and o < c), replay_witness=(a, b, o, c) == (1, 1, 0, 1),
                                sample={"mode": "step: any Inv state + one field", "octets": nb, "segments": [a, b, nb - a - b],
                                        "init_offset": o, "octets_consumed": c, "cached_bits": "symbolic 0..31",
                                        "width": "symbolic 1..24"} if (a, b, o, c) == (1, 1, 0, 1) else None))
    if not quick:
        qs.append(Query(name="bstream_seq_nb4_nf2_seg1.2", harness="C18_bstream.c",
                        defines=["NB=4", "NF=2", "SEG0=1", "SEG1=2"], unwind=6,
                        unwindset=["ref_get.0:33", "main.0:6", "main.1:6", "blk_new.0:6"], shims=SHIMS, leak=True, timeout=1500,
                        sample={"mode": "sequence of 2 fields end to end (cross-check)", "segments": [1, 2, 1]}))
    meta = {
        "bounds": {"ubits_fields": [p[0] for p in plan], "ubits_buffer_sizes": "every size 0..4*fields+1 (one query each)",
                   "stream_octets": nb, "stream_fields": "any number (induction: base + step)", "stream_width_max": 24,
                   "segments": "every 3-way segmentation incl. empty segments (one query each)",
                   "unwind": 34},
        "exhaustive": False,
        "assumptions": ["value < 2^width (asserted precondition of ubits_put)",
                        "block stream reader used as documented: fill_bits(n<=24) / show_bits / skip_bits",
                        "sequential harness: uatomic_seq.h and upool_depth0.h shims (native replay uses the real headers)",
                        "undefined-shift check is the detecting assertion for shift-by-width (CBMC evaluates x<<32 to 0, x86 keeps x)"],
        "outside": ["more fields than the bound", "block stream fill_bits with n > 24 (the code asserts available<=32)",
                    "blocks with more than 3 segments"],
    }
    return qs, meta
