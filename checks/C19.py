from vlib.core import Query

FMT = {
    "i420": (1, [("y8", 1, 1, 1), ("u8", 2, 2, 1), ("v8", 2, 2, 1)]),
    "yuv422p": (1, [("y8", 1, 1, 1), ("u8", 2, 1, 1), ("v8", 2, 1, 1)]),
    "yuv444p": (1, [("y8", 1, 1, 1), ("u8", 1, 1, 1), ("v8", 1, 1, 1)]),
    "yuva420p": (1, [("y8", 1, 1, 1), ("u8", 2, 2, 1), ("v8", 2, 2, 1), ("a8", 1, 1, 1)]),
    "yuv420p10le": (1, [("y10l", 1, 1, 2), ("u10l", 2, 2, 2), ("v10l", 2, 2, 2)]),
    "yuv422p16le": (1, [("y16l", 1, 1, 2), ("u16l", 2, 1, 2), ("v16l", 2, 1, 2)]),
    "nv12": (1, [("y8", 1, 1, 1), ("u8v8", 2, 2, 2)]),
    "yuyv422": (2, [("y8u8y8v8", 1, 1, 4)]),
    "v210": (6, [("u10y10v10y10u10y10v10y10u10y10v10y10", 1, 1, 16)]),
    "rgb24": (1, [("r8g8b8", 1, 1, 3)]),
    "rgba": (1, [("r8g8b8a8", 1, 1, 4)]),
    "gray8": (1, [("y8", 1, 1, 1)]),
}
MARGINS = [(0, 0, 0, 0, 0, 0), (2, 2, 2, 2, 16, 0), (2, 0, 1, 3, 4, 1), (4, 4, 2, 2, 32, 0)]
UW = ["strcmp.0:40", "strlen.0:40", "strdup.0:40", "strcpy.0:40", "memcpy.0:40", "urefcount_release:3"]

CLAIM = {
    "text": "Bounded model checking of the real picture buffer arithmetic (ubuf_pic_common.c plane_map / check_size / check_skip / "
            "resize / dup, ubuf_pic_mem.c allocation sizing, strides, plane origins and alignment, through the public ubuf_pic_* API) for "
            "every listed flow format (planar / semi-planar / packed, 8 / 10 / 16 bit, 4:2:0 .. 4:4:4, macropixels of 2 and 6 pixels), "
            "manager margin / alignment configuration and picture size (these fix the divisors and strides, so they are enumerated), with "
            "SYMBOLIC windows, resize arguments and pixel coordinates: an accepted window lies entirely inside the allocated memory and "
            "inside its own plane (first / last octet of first / last line, also written: CBMC bounds checks); windows that are not "
            "multiples of the subsampling / macropixel granularity or exceed the picture are refused; two distinct pixels never share an "
            "octet, within a plane and across planes; after an accepted resize (crop, or extension into the margins) every pixel that "
            "stays visible keeps its ADDRESS (so its value), a refused resize changes nothing, and a duplicate sees the same addresses "
            "before and after; the resize under test is the SECOND link of a chain whose first link is itself an arbitrary (symbolic) "
            "resize, and the resized picture's last pixel must still lie inside its own plane.",
    "note": "Trusted: CBMC 6.11, the 12-line window classifier in the harness, shims (uatomic_seq.h, upool_depth0.h), static managers, "
            "fprestrict. Content preservation is decided on addresses (no pixel values are written / compared). Bounds: pictures up to "
            "12 x 6 pixels, arguments in [-40, 40]. Not covered: sound buffers (ubuf_sound_*), ubuf_pic.c helpers (blit, clear), "
            "uref_pic_flow format strings, larger pictures.",
    "technique": "CBMC bounded model checking of real C address arithmetic with an address-level oracle; one query per "
                 "(format, plane, margins, size, mode), symbolic windows / resizes / coordinates",
}


def q(mode, fmt, hs, vs, marg, plane=0, plane2=0, timeout=280, sample=False, chain=False):
    mp, pls = FMT[fmt]
    pl = " ".join('P("%s",%d,%d,%d)' % x for x in pls)
    defs = ["MODE_" + mode, "MACROPIXEL=%d" % mp, "PLANES=" + pl, "HS=%d" % hs, "VS=%d" % vs, "HMPRE=%d" % marg[0], "HMAPP=%d" % marg[1],
            "VPRE=%d" % marg[2], "VAPP=%d" % marg[3], "ALIGN=%d" % marg[4], "ALIGN_HMOFF=%d" % marg[5], "VERIF_POOL_NO_MGR_REF",
            "PLANE=%d" % plane, "PLANE2=%d" % plane2] + (["CHAIN"] if chain else [])
    return Query(name="%s_%s_p%d%s_%dx%d_m%s" % (mode.lower() + ("chain" if chain else ""), fmt, plane, ("-%d" % plane2) if mode == "INJECT" else "", hs, vs, "-".join(map(str, marg))),
                 harness="C19_pic.c", defines=defs, shims=["uatomic_seq.h", "upool_depth0.h"], unwind=8, unwindset=UW, fp_restrict=True,
                 timeout=timeout, replay_witness=sample,
                 sample={"mode": mode, "format": fmt, "plane": pls[plane][0], "picture": [hs, vs],
                         "margins(hmpre,hmapp,vpre,vapp,align,align_hmoffset)": list(marg),
                         "symbolic": "window / resize arguments / coordinates in [-40,40]"} if sample else None)


def build(tier):
    quick = tier == "quick"
    qs = []
    fmts = ["i420", "yuyv422", "nv12", "yuv420p10le", "rgb24", "v210"] if quick else list(FMT)
    margs = MARGINS[:2] if quick else MARGINS
    for fi, f in enumerate(fmts):
        mp, pls = FMT[f]
        hs = 12 if mp in (1, 2, 6) else 8
        vs = 4
        for mi, m in enumerate(margs):
            if m[0] % 1:
                continue
            planes = range(len(pls)) if not quick else ([0, len(pls) - 1] if len(pls) > 1 else [0])
            for p in planes:
                qs.append(q("WINDOW", f, hs, vs, m, plane=p, sample=(fi == 0 and mi == 1 and p == len(pls) - 1)))
                if not quick or mi == 1:
                    qs.append(q("RESIZE", f, hs, vs, m, plane=p, sample=(fi == 0 and mi == 1 and p == 0), chain=True))
            pairs = [(a, b) for a in range(len(pls)) for b in range(a, len(pls))]
            if quick:
                pairs = pairs[:1] + pairs[-2:]
            for (a, b) in pairs:
                qs.append(q("INJECT", f, hs, vs, m, plane=a, plane2=b))
    seen = set()
    qs = [x for x in qs if not (x.name in seen or seen.add(x.name))]
    meta = {"bounds": {"formats": fmts, "margin_configs": margs, "picture_sizes": "12x4 pixels", "argument_range": "[-40,40]"},
            "exhaustive": False,
            "rule": "one query per (mode, format, plane[s], margin configuration); windows, resizes and coordinates are symbolic",
            "assumptions": ["window classification: offsets may be negative (from the end), size -1 = to the end, other negative sizes unspecified",
                            "shims uatomic_seq.h / upool_depth0.h, static managers, fprestrict"],
            "outside": ["sound buffers", "pictures larger than 12x6", "ubuf_pic.c blit/clear helpers", "split_fields"]}
    return qs, meta
