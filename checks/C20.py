from vlib.core import Query
from checks import C06

SHIMS = ["uatomic_seq.h", "upool_depth0.h"]

CLAIM = {
    "text": "Bounded model checking of the real control() functions of upipe_skip, chunk_stream, delay, genaux, time_limit, rate_limit, "
            "aggregate (output_size helper), setattr, setflowdef, queue sink (max_length, pseudo-output) and queue source (max_length, length, output), driven through the public getter/setter API over the real "
            "uref_std / udict_inline / ubuf_block_mem managers: for two SYMBOLIC values per option (all 64-bit values, or small ranges where "
            "the pipe divides by them) a getter called after an accepted setter returns the value set, a rejected setter leaves the "
            "previous value in force, the getter's output variable is pre-loaded with symbolic junk (a getter that reads its argument is "
            "exposed), get_output/get_flow_def report what was stored; and non-interference: a twin instance that additionally receives "
            "junk-loaded getter calls outputs the same buffers (count, sizes, octets) for the same 4 symbolic input octets.",
    "note": "Trusted: CBMC 6.11; type-exact function-pointer target sets computed by vlib/fprestrict.py (guarded by inserted assertions); "
            "harness probe/sinks (pipe_env.h); mock pump manager for time_limit/rate_limit; vsnprintf stub (log text is not observed); "
            "uatomic_seq.h / upool_depth0.h / static managers. Data path: one 4-octet buffer, concrete configuration for chunk_stream and "
            "aggregate. Queue sink / queue source options run on harness/C06_queue.c (getters "
            "interleaved with a monitored stream). Not covered: buffer / ts_sync options, pipes needing external libraries.",
    "technique": "CBMC bounded model checking of real C pipes (goto-cc) with symbolic option values; twin-instance non-interference; "
                 "type-exact function-pointer restriction",
}
UW = ["urefcount_release:3", "ubuf_free:2", "ubuf_block_mem_free:2", "ubuf_dup:2", "ubuf_block_common_clean.0:2",
      "ubuf_block_get.0:3", "ubuf_block_delete.0:3", "ubuf_block_common_dup.0:2", "strlen.0:40", "strcmp.0:40", "strncmp.0:40"]
PIPES = [(1, 0, "skip.offset"), (2, 0, "chunk_stream.mtu_align"), (3, 0, "delay.delay"), (4, 0, "genaux.getattr"),
         (5, 0, "time_limit.limit"), (6, 0, "rate_limit.limit"), (6, 1, "rate_limit.duration"), (7, 0, "aggregate.output_size"),
         (8, 0, "setattr.dict"), (9, 0, "setflowdef.dict")]


def build(tier):
    qs = []
    for pipe, opt, nm in PIPES:
        qs.append(Query(name="getset_" + nm, harness="C20_getset.c", defines=["PIPE=%d" % pipe, "OPT=%d" % opt, "VERIF_POOL_NO_MGR_REF"],
                        shims=SHIMS, unwind=8, unwindset=UW, fp_restrict=True, timeout=280, replay_witness=True,
                        sample={"pipe.option": nm, "values": "two symbolic values (accepted or rejected), getter output pre-loaded with symbolic junk",
                                "non-interference": "twin instance receiving extra getter calls, same 4 symbolic input octets"}))
    # queue sink / queue source (harness/C06_queue.c): set_max_length + get (symbolic value), every getter of both pipes
    # (max_length, queue length, output, pseudo-output, flow definition) interleaved with a stream whose delivery is monitored
    for ops in ([17, 0, 2, 16, 17, 2, 7, 17, 9, 7, 17, 2, 4], [10, 17, 16, 0, 2, 17, 11, 17, 4], [16, 0, 2, 2, 17, 16, 9, 17, 7, 4]):
        qs.append(C06.q("getset_queue_" + "-".join(map(str, ops)), ops, 1, timeout=280, replay=True, sample=(ops[0] == 17)))
    meta = {"bounds": {"options": [n for _, _, n in PIPES] + ["queue_sink.max_length", "queue_sink.output", "queue_source.max_length / length / output"], "values": "2 symbolic values per option + symbolic junk in the getter's output variable",
                       "data": "one buffer of 4 symbolic octets per instance", "unwind": 8},
            "assumptions": ["the probe answers NEED_UPUMP_MGR with the mock manager for time_limit / rate_limit (they refuse control commands without one)",
                            "value ranges: skip.offset <= 6, chunk mtu/align <= 8, aggregate output_size <= 8 (divisors / sizes); others full width",
                            "sequential shims uatomic_seq.h, upool_depth0.h (+VERIF_POOL_NO_MGR_REF), static managers"],
            "outside": ["buffer / ts_sync option pairs", "more than one input buffer", "allocation failure"]}
    return qs, meta
