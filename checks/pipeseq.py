"""Shared by C04 / C05 / C01: queries on harness/pipe_seq.c (one real linear pipe, driver-chosen operation sequence)."""
import itertools
from vlib.core import Query

SHIMS = ["uatomic_seq.h", "upool_depth0.h"]
UW = ["probe_check_order.0:26", "env_count.0:26", "urefcount_release:3", "ubuf_free:2", "ubuf_block_mem_free:2", "ubuf_dup:2", "ubuf_block_common_clean.0:2",
      "ubuf_block_get.0:3", "ubuf_block_delete.0:3", "ubuf_block_common_dup.0:2", "strlen.0:40", "strcmp.0:40", "strncmp.0:40", "memcmp.0:40"]
PIPES = {1: "idem", 2: "skip", 3: "setattr", 4: "setflowdef", 5: "probe_uref", 6: "delay", 7: "htons", 8: "null", 9: "match_attr", 10: "helper_built", 11: "helper_hold"}
OPN = {0: "def(block.)", 1: "def(block.other.)", 2: "def(pic.)", 3: "out(S0)", 4: "out(S1)", 5: "out(NULL)", 6: "input", 7: "flush",
       8: "S0.reject", 9: "S0.accept", 10: "rebuild_flow_def", 11: "credit+1", 12: "drain", 13: "credit+2"}


def seqs(alphabet, k, first=None, last=None, must=(), min_count=None):
    out = []
    for t in itertools.product(alphabet, repeat=k):
        if first is not None and t[0] not in first:
            continue
        if last is not None and t[-1] not in last:
            continue
        if any(m not in t for m in must):
            continue
        if min_count and any(t.count(op) < n for op, n in min_count.items()):
            continue
        out.append(list(t))
    return out


def query(prop, pipe, ops, timeout=280, witness_delivered=0, sample=False, replay=False, count_mgrs=False, segmented=0):
    name = "%s%s_%s" % (PIPES[pipe], ("_seg%d" % segmented) if segmented else "", "-".join(map(str, ops)))
    return Query(name=name, harness="pipe_seq.c",
                 defines=["PIPE=%d" % pipe, "OPS=" + ",".join(map(str, ops)), "WITNESS_DELIVERED=%d" % witness_delivered] +
                 (["ENV_COUNT_MGRS"] if count_mgrs else ["VERIF_POOL_NO_MGR_REF"]) + (["SEGMENTED=%d" % segmented] if segmented else []),
                 shims=SHIMS, unwind=max(8, len(ops) + 2), unwindset=UW, fp_restrict=True, timeout=timeout, leak=True, replay_witness=replay,
                 sample={"pipe": PIPES[pipe], "operations": [OPN[o] for o in ops] + ["release"],
                         "symbolic": "payload octets (3 per buffer), option values"} if sample else None)


COMMON_ASSUME = [
    "operation kinds are enumerated by the driver (a symbolic kind makes the heap shape symbolic, see DESIGN 1); payloads and option values are symbolic",
    "sinks are harness pipes: accept/refuse flow definitions as scripted, keep the buffers they receive",
    "type-exact function-pointer targets (vlib/fprestrict.py), sequential shims uatomic_seq.h / upool_depth0.h (+VERIF_POOL_NO_MGR_REF), static managers, vsnprintf stub",
    "interpretation: releasing the output and unregistering requests during teardown is not 'touching the output'; sending it input / set_flow_def, or throwing any event after dead, is",
]
