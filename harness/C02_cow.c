/* C02: shared buffer memory is copy-on-write -- handles are isolated.
 * Real code: ubuf_block.h (write/dup/splice/slice/delete/append/resize), ubuf_block_common.h,
 * ubuf_block_mem.c (dup, splice, single), ubuf_mem_common.h (shared refcount).
 * A family of up to 4 handles grows from one 4-octet block by a driver-chosen operation sequence
 * OPS = kind,h,a,b,... (kinds and arguments are discrete selectors: they decide which memory areas
 * are shared, i.e. the heap shape).  Payload octets and the octet stored by every write are symbolic.
 * Model: memory AREAS (byte array + number of owner segments) and, per handle, the list of segment
 * windows (area, start, length).  After every operation:
 *  (a) every live handle reads back exactly the octets of its model windows (a write that leaked
 *      into a sibling, or a structural operation that modified shared bytes, is a mismatch);
 *  (b) ubuf_block_write is granted iff the area of the addressed segment has exactly one owner in
 *      the model, and refused (UBASE_ERR_BUSY) otherwise;
 *  (c) structural operations never change the bytes of any area (the area model is only updated by
 *      granted writes).
 * kinds: 0 dup(h)  1 splice(h,a,b)  2 write(h, offset a) + store  3 delete(h,a,b)  4 append(h, fresh 2 octets)
 *        5 resize(h,a,b)  6 free(h)  7 insert(h, a, fresh 2 octets)  8 split(h, a) -> new handle holding the tail */
#include "blk.h"

#define MAXH 4
#define MAXA 6
#define MAXS 6
#define ASZ 4
struct area { uint8_t b[ASZ]; int owners; int size; };
struct seg { int area, start, len; };
struct hnd { bool live; struct ubuf *u; struct seg s[MAXS]; int ns; };
static struct area A[MAXA];
static int na;
static struct hnd H[MAXH];
static struct ubuf_mgr *mgr;

static int new_area(int size)
{
    VASSERT(na < MAXA, "harness capacity: areas");
    for (int i = 0; i < size; i++)
        A[na].b[i] = nd_u8();
    A[na].owners = 1;
    A[na].size = size;
    return na++;
}
static int hlen(const struct hnd *h)
{
    int n = 0;
    for (int i = 0; i < h->ns; i++)
        n += h->s[i].len;
    return n;
}
static int free_slot(void)
{
    for (int i = 0; i < MAXH; i++)
        if (!H[i].live)
            return i;
    VASSERT(0, "harness capacity: handles");
    return 0;
}
/* model: index of the segment holding offset o (first non-empty one), offset inside returned in *in */
static int seg_of(const struct hnd *h, int o, int *in)
{
    int start = 0;
    for (int i = 0; i < h->ns; i++) {
        if (o < start + h->s[i].len) {
            *in = o - start;
            return i;
        }
        start += h->s[i].len;
    }
    return -1;
}
/* model of ubuf_block_slice at (segment i, inner offset in): the segment is dup'ed -> one more owner */
static void m_slice(struct hnd *h, int i, int in)
{
    VASSERT(h->ns < MAXS, "harness capacity: segments");
    for (int k = h->ns; k > i + 1; k--)
        h->s[k] = h->s[k - 1];
    h->s[i + 1].area = h->s[i].area;
    h->s[i + 1].start = h->s[i].start + in;
    h->s[i + 1].len = h->s[i].len - in;
    h->s[i].len = in;
    h->ns++;
    A[h->s[i].area].owners++;
}
static void m_drop_from(struct hnd *h, int first)     /* segments first.. are released */
{
    for (int k = first; k < h->ns; k++)
        A[h->s[k].area].owners--;
    h->ns = first;
}

static void check_all(void)
{
    for (int i = 0; i < MAXH; i++) {
        if (!H[i].live)
            continue;
        size_t size = 0;
        VASSERT(ubase_check(ubuf_block_size(H[i].u, &size)) && (int)size == hlen(&H[i]), "handle size equals its model");
        uint8_t got[16];
        if (size > 0)
            VASSERT(ubase_check(ubuf_block_extract(H[i].u, 0, (int)size, got)), "handle readable");
        int n = 0;
        for (int k = 0; k < H[i].ns; k++)
            for (int j = 0; j < H[i].s[k].len; j++) {
                VASSERT(got[n] == A[H[i].s[k].area].b[H[i].s[k].start + j],
                        "octets visible through a handle changed only by writes granted on their own area");
                n++;
            }
    }
    for (int a = 0; a < na; a++)
        VASSERT(A[a].owners >= 0, "model sanity");
}

int main(void)
{
    static const int ops[] = { OPS };
    mgr = blk_mgr_new(0, 0, 0, 0);
    {
        int a = new_area(ASZ);
        H[0].u = blk_new(mgr, A[a].b, ASZ);
        H[0].live = true;
        H[0].ns = 1;
        H[0].s[0].area = a; H[0].s[0].start = 0; H[0].s[0].len = ASZ;
    }
    check_all();
    bool wrote = false, refused = false;
    for (unsigned k = 0; k + 3 < sizeof(ops) / sizeof(ops[0]); k += 4) {
        int kind = ops[k], hi = ops[k + 1], a = ops[k + 2], b = ops[k + 3];
        struct hnd *h = &H[hi];
        VASSUME(h->live);
        int L = hlen(h);
        switch (kind) {
            case 0: {           /* dup */
                int n = free_slot();
                H[n].u = ubuf_dup(h->u);
                VASSERT(H[n].u != NULL, "dup succeeds");
                H[n].live = true;
                H[n].ns = h->ns;
                for (int i = 0; i < h->ns; i++) {
                    H[n].s[i] = h->s[i];
                    A[h->s[i].area].owners++;
                }
                break;
            }
            case 1: {           /* splice(a, b) with 0 <= a < L, b == -1 or a + b <= L */
                int size = b == -1 ? L - a : b;
                VASSUME(a >= 0 && a < L && size >= 0 && a + size <= L);
                int n = free_slot();
                H[n].u = ubuf_block_splice(h->u, a, b);
                VASSERT(H[n].u != NULL, "splice of an in-range area succeeds");
                H[n].live = true;
                H[n].ns = 0;
                int in = 0, i = seg_of(h, a, &in);
                /* ubuf_block_common_splice: first window from (i, in), then following segments while size remains */
                int left = size;
                bool first = true;
                for (; i < h->ns && (first || left > 0); i++) {
                    int st = h->s[i].start + (first ? in : 0);
                    int ln = h->s[i].len - (first ? in : 0);
                    if (ln > left)
                        ln = left;
                    H[n].s[H[n].ns].area = h->s[i].area;
                    H[n].s[H[n].ns].start = st;
                    H[n].s[H[n].ns].len = ln;
                    H[n].ns++;
                    A[h->s[i].area].owners++;
                    left -= ln;
                    first = false;
                }
                break;
            }
            case 2: {           /* write-map at offset a, store one symbolic octet */
                VASSUME(a >= 0 && a < L);
                int in = 0, i = seg_of(h, a, &in);
                int sz = -1;
                uint8_t *w = NULL;
                int err = ubuf_block_write(h->u, a, &sz, &w);
                bool single = A[h->s[i].area].owners == 1;
                if (single) {
                    VASSERT(ubase_check(err), "a writable mapping is granted while the memory area has a single owner");
                    VASSERT(sz == h->s[i].len - in, "the mapping covers the rest of the segment");
                    uint8_t v = nd_u8();
                    w[0] = v;
                    A[h->s[i].area].b[h->s[i].start + in] = v;
                    ubuf_block_unmap(h->u, a);
                    wrote = true;
                } else {
                    VASSERT(err == UBASE_ERR_BUSY, "a writable mapping is refused (busy) while the memory area is shared");
                    refused = true;
                }
                break;
            }
            case 3: {           /* delete(a, b), in range */
                VASSUME(a >= 0 && a < L && b >= 1 && a + b <= L);
                VASSERT(ubase_check(ubuf_block_delete(h->u, a, b)), "in-range delete succeeds");
                /* model of the code's walk: from the segment holding a */
                int in = 0, i = seg_of(h, a, &in);
                int left = b;
                while (left > 0) {
                    if (in == 0) {
                        int d = left <= h->s[i].len ? left : h->s[i].len;
                        h->s[i].len -= d;
                        h->s[i].start += d;
                        left -= d;
                    } else if (in + left < h->s[i].len) {
                        m_slice(h, i, in + left);
                        h->s[i].len = in;
                        left = 0;
                    } else {
                        int d = h->s[i].len - in;
                        h->s[i].len -= d;
                        left -= d;
                        in = 0;
                    }
                    i++;
                    in = 0;
                    if (left > 0)
                        VASSERT(i < h->ns, "model: delete stays inside the chain");
                }
                break;
            }
            case 4: {           /* append a fresh 2-octet block */
                int ar = new_area(2);
                struct ubuf *f = blk_new(mgr, A[ar].b, 2);
                VASSERT(ubase_check(ubuf_block_append(h->u, f)), "append succeeds");
                VASSERT(h->ns < MAXS, "harness capacity: segments");
                h->s[h->ns].area = ar; h->s[h->ns].start = 0; h->s[h->ns].len = 2;
                h->ns++;
                break;
            }
            case 5: {           /* resize(a, -1): drop a octets in front  |  resize(0, b): keep b octets */
                if (b == -1) {
                    VASSUME(a > 0 && a <= L);
                    VASSERT(ubase_check(ubuf_block_resize(h->u, a, -1)), "in-range resize succeeds");
                    int left = a, i = 0;
                    while (left > 0) {
                        int d = left <= h->s[i].len ? left : h->s[i].len;
                        h->s[i].len -= d;
                        h->s[i].start += d;
                        left -= d;
                        i++;
                    }
                } else {
                    VASSUME(a == 0 && b >= 1 && b < L);
                    VASSERT(ubase_check(ubuf_block_resize(h->u, 0, b)), "in-range resize succeeds");
                    int in = 0, i = seg_of(h, b - 1, &in);
                    m_drop_from(h, i + 1);
                    h->s[i].len = in + 1;
                }
                break;
            }
            case 6:             /* free */
                ubuf_free(h->u);
                h->live = false;
                m_drop_from(h, 0);
                break;
            case 8: {           /* split at offset a (0 < a < L): the tail becomes a new handle */
                VASSUME(a > 0 && a < L);
                int n = free_slot();
                H[n].u = ubuf_block_split(h->u, a);
                VASSERT(H[n].u != NULL, "in-range split succeeds");
                int in = 0, i = seg_of(h, a, &in);
                /* the code slices the segment holding the offset -- also at its very beginning, which leaves an empty
                 * segment (still an owner of the area) at the end of the truncated head */
                m_slice(h, i, in);
                i++;
                H[n].live = true;
                H[n].ns = 0;
                for (int k = i; k < h->ns; k++)
                    H[n].s[H[n].ns++] = h->s[k];
                h->ns = i;
                break;
            }
            default: {          /* insert a fresh 2-octet block at offset a (0 <= a < L) */
                VASSUME(a >= 0 && a < L);
                int ar = new_area(2);
                struct ubuf *f = blk_new(mgr, A[ar].b, 2);
                VASSERT(ubase_check(ubuf_block_insert(h->u, a, f)), "in-range insert succeeds");
                int in = 0, i = seg_of(h, a, &in);
                if (in < h->s[i].len)       /* the code slices whenever the offset is inside the segment (also at 0) */
                    m_slice(h, i, in);
                VASSERT(h->ns < MAXS, "harness capacity: segments");
                for (int q = h->ns; q > i + 1; q--)
                    h->s[q] = h->s[q - 1];
                h->s[i + 1].area = ar; h->s[i + 1].start = 0; h->s[i + 1].len = 2;
                h->ns++;
                break;
            }
        }
        check_all();
    }
#ifdef WITNESS
#if defined(WITNESS_WROTE)
    VASSUME(wrote);
#elif defined(WITNESS_REFUSED)
    VASSUME(refused);
#endif
#endif
    (void)wrote; (void)refused;
    VWITNESS();
    for (int i = 0; i < MAXH; i++)
        if (H[i].live) {
            ubuf_free(H[i].u);
            H[i].live = false;
            m_drop_from(&H[i], 0);
        }
    for (int a = 0; a < na; a++)
        VASSERT(A[a].owners == 0, "model: every area released");
    blk_mgr_done(mgr);
    blk_umem_done();
    return 0;
}
