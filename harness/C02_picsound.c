/* C02 for picture and sound buffers: handles that share memory are isolated (copy-on-write).
 * Real code: lib/upipe/ubuf_pic_mem.c / ubuf_pic_common.c / ubuf_pic.h (MODE_PIC) and lib/upipe/ubuf_sound_mem.c /
 * ubuf_sound_common.c / ubuf_sound.h (MODE_SOUND), ubuf_mem_common.c (shared areas), umem_alloc.
 * Scenario (plane PLANE and VARIANT are discrete selectors; coordinates, crop arguments and values are symbolic):
 *   1 single owner: a write mapping on pixel / sample P is granted, value v stored
 *   2 d = dup(u): d reads v at P (duplicates see the same content)
 *   3 shared: a write mapping is REFUSED (UBASE_ERR_BUSY) through u and through d
 *   4 VARIANT 0: u is cropped (symbolic, accepted or refused): d keeps its size and still reads v at P; still no write
 *     VARIANT 1: c = copy(u): c reads v at P, a write mapping on c is granted, v2 stored: u and d still read v
 *   5 d (and c) freed: u is the single owner again, the write mapping is granted, P still holds v */
#include "nd.h"
#ifndef VERIF_REPLAY
#include <stdarg.h>
#include <stdio.h>
int vsnprintf(char *str, size_t size, const char *format, va_list ap) { (void)format; (void)ap; if (str && size) str[0] = 0; return 0; }
#endif
#include "lib/upipe/umem_alloc.c"
#include "lib/upipe/ubuf_mem_common.c"
#ifdef MODE_SOUND
#include "lib/upipe/ubuf_sound_common.c"
#include "lib/upipe/ubuf_sound_mem.c"
#include "upipe/ubuf_sound.h"
#else
#include "lib/upipe/ubuf_pic_common.c"
#include "lib/upipe/ubuf_pic_mem.c"
#include "upipe/ubuf_pic.h"
#endif
#ifndef PLANE
#define PLANE 0
#endif
#ifndef VARIANT
#define VARIANT 0
#endif

static struct ubuf_mgr *mgr;
static struct umem_mgr *umem_mgr;

#ifdef MODE_SOUND
#define NS 6
static const char *chan[] = { "l", "r" };
static int rd(struct ubuf *b, int s, int16_t *out)
{
    const int16_t *p = NULL;
    int err = ubuf_sound_plane_read_int16_t(b, chan[PLANE], s, 1, &p);
    if (ubase_check(err)) {
        *out = p[0];
        ubuf_sound_plane_unmap(b, chan[PLANE], s, 1);
    }
    return err;
}
static int wr(struct ubuf *b, int s, int16_t v)
{
    int16_t *p = NULL;
    int err = ubuf_sound_plane_write_int16_t(b, chan[PLANE], s, 1, &p);
    if (ubase_check(err)) {
        p[0] = v;
        ubuf_sound_plane_unmap(b, chan[PLANE], s, 1);
    }
    return err;
}
int main(void)
{
    umem_mgr = umem_alloc_mgr_alloc();
    VASSUME(umem_mgr != NULL);
    mgr = ubuf_sound_mem_mgr_alloc(0, 0, umem_mgr, 2, 0);
    VASSUME(mgr != NULL);
    VASSERT(ubase_check(ubuf_sound_mem_mgr_add_plane(mgr, "l")) && ubase_check(ubuf_sound_mem_mgr_add_plane(mgr, "r")), "planes added");
    struct urefcount *rc_u = umem_mgr->refcount, *rc_m = mgr->refcount;
    umem_mgr->refcount = NULL;
    mgr->refcount = NULL;
    struct ubuf *u = ubuf_sound_alloc(mgr, NS);
    VASSERT(u != NULL, "allocation succeeds");
    int s = nd_int();
    VASSUME(s >= 0 && s < NS);
    int16_t v = (int16_t)nd_u32(), got = 0;
    VASSERT(ubase_check(wr(u, s, v)), "C02: a write mapping is granted while the memory area has a single owner");
    struct ubuf *d = ubuf_dup(u);
    VASSERT(d != NULL, "dup succeeds");
    VASSERT(ubase_check(rd(d, s, &got)) && got == v, "C02: a duplicate sees the same content");
    VASSERT(wr(u, s, 1) == UBASE_ERR_BUSY && wr(d, s, 2) == UBASE_ERR_BUSY, "C02: a write mapping is refused while the memory area is shared");
    struct ubuf *c = NULL;
#if VARIANT == 0
    int off = nd_int(), ns = nd_int();
    VASSUME(off >= -8 && off <= 8 && ns >= -1 && ns <= 8);
    int err = ubuf_sound_resize(u, off, ns);
    size_t sz = 0;
    uint8_t ss;
    VASSERT(ubase_check(ubuf_sound_size(d, &sz, &ss)) && sz == NS, "C02: cropping one handle leaves the other handle's size alone");
    VASSERT(ubase_check(rd(d, s, &got)) && got == v, "C02: cropping one handle does not change what the other handle reads");
    int no = off < 0 ? off + NS : off;
    if (ubase_check(err) && s - no >= 0 && s - no < (ns == -1 ? NS - no : ns)) {
        VASSERT(ubase_check(rd(u, s - no, &got)) && got == v, "C19/C02: a sample that stays visible after the crop keeps its value");
        VASSERT(wr(u, s - no, 3) == UBASE_ERR_BUSY, "C02: the cropped handle still shares the area: no write mapping");
    }
#else
    c = ubuf_sound_copy(mgr, u, 0, -1);
    VASSERT(c != NULL, "copy succeeds");
    VASSERT(ubase_check(rd(c, s, &got)) && got == v, "C02: a copy starts with the same content");
    int16_t v2 = (int16_t)nd_u32();
    VASSERT(ubase_check(wr(c, s, v2)), "C02: a copy owns its memory: the write mapping is granted");
    VASSERT(ubase_check(rd(u, s, &got)) && got == v && ubase_check(rd(d, s, &got)) && got == v,
            "C02: writing through the copy changes nothing visible through the handles of the original area");
#endif
    ubuf_free(d);
    if (c != NULL)
        ubuf_free(c);
#if VARIANT == 1
    VASSERT(ubase_check(rd(u, s, &got)) && got == v, "C02: content intact after the other handles are gone");
    VASSERT(ubase_check(wr(u, s, v)), "C02: the last holder is the single owner again: the write mapping is granted");
#endif
    VWITNESS();
    ubuf_free(u);
    mgr->refcount = rc_m;
    umem_mgr->refcount = rc_u;
    ubuf_mgr_release(mgr);
    umem_mgr_release(umem_mgr);
    return 0;
}
#else
/* ------------------------------------------------------------------ MODE_PIC: 4:2:0-like, 4 x 4 pixels */
#define HS 4
#define VS 4
static const struct { const char *chroma; int hsub, vsub; } pl[] = { { "y8", 1, 1 }, { "u8", 2, 2 } };
static int rd(struct ubuf *b, int x, int y, uint8_t *out)
{
    const uint8_t *p = NULL;
    int err = ubuf_pic_plane_read(b, pl[PLANE].chroma, x, y, pl[PLANE].hsub, pl[PLANE].vsub, &p);
    if (ubase_check(err)) {
        *out = p[0];
        ubuf_pic_plane_unmap(b, pl[PLANE].chroma, x, y, pl[PLANE].hsub, pl[PLANE].vsub);
    }
    return err;
}
static int wr(struct ubuf *b, int x, int y, uint8_t v)
{
    uint8_t *p = NULL;
    int err = ubuf_pic_plane_write(b, pl[PLANE].chroma, x, y, pl[PLANE].hsub, pl[PLANE].vsub, &p);
    if (ubase_check(err)) {
        p[0] = v;
        ubuf_pic_plane_unmap(b, pl[PLANE].chroma, x, y, pl[PLANE].hsub, pl[PLANE].vsub);
    }
    return err;
}
int main(void)
{
    umem_mgr = umem_alloc_mgr_alloc();
    VASSUME(umem_mgr != NULL);
    mgr = ubuf_pic_mem_mgr_alloc(0, 0, umem_mgr, 1, 0, 0, 0, 0, 0, 0);
    VASSUME(mgr != NULL);
    VASSERT(ubase_check(ubuf_pic_mem_mgr_add_plane(mgr, "y8", 1, 1, 1)) && ubase_check(ubuf_pic_mem_mgr_add_plane(mgr, "u8", 2, 2, 1)), "planes added");
    struct urefcount *rc_u = umem_mgr->refcount, *rc_m = mgr->refcount;
    umem_mgr->refcount = NULL;
    mgr->refcount = NULL;
    struct ubuf *u = ubuf_pic_alloc(mgr, HS, VS);
    VASSERT(u != NULL, "allocation succeeds");
    int x = nd_int(), y = nd_int();
    VASSUME(x >= 0 && x < HS && y >= 0 && y < VS && x % pl[PLANE].hsub == 0 && y % pl[PLANE].vsub == 0);
    uint8_t v = nd_u8(), got = 0;
    VASSERT(ubase_check(wr(u, x, y, v)), "C02: a write mapping is granted while the memory area has a single owner");
    struct ubuf *d = ubuf_dup(u);
    VASSERT(d != NULL, "dup succeeds");
    VASSERT(ubase_check(rd(d, x, y, &got)) && got == v, "C02: a duplicate sees the same content");
    VASSERT(wr(u, x, y, 1) == UBASE_ERR_BUSY && wr(d, x, y, 2) == UBASE_ERR_BUSY, "C02: a write mapping is refused while the memory area is shared");
    struct ubuf *c = NULL;
#if VARIANT == 0
    int hskip = nd_int(), vskip = nd_int(), nh = nd_int(), nv = nd_int();
    VASSUME(hskip >= -4 && hskip <= 4 && vskip >= -4 && vskip <= 4 && nh >= -1 && nh <= 6 && nv >= -1 && nv <= 6);
    int err = ubuf_pic_resize(u, hskip, vskip, nh, nv);
    size_t h = 0, w = 0;
    uint8_t mp;
    VASSERT(ubase_check(ubuf_pic_size(d, &h, &w, &mp)) && h == HS && w == VS, "C02: cropping one handle leaves the other handle's size alone");
    VASSERT(ubase_check(rd(d, x, y, &got)) && got == v, "C02: cropping one handle does not change what the other handle reads");
    size_t h1 = 0, v1 = 0;
    ubuf_pic_size(u, &h1, &v1, &mp);
    if (ubase_check(err) && x - hskip >= 0 && x - hskip < (int)h1 && y - vskip >= 0 && y - vskip < (int)v1) {
        VASSERT(ubase_check(rd(u, x - hskip, y - vskip, &got)) && got == v, "C19/C02: a pixel that stays visible after the crop keeps its value");
        VASSERT(wr(u, x - hskip, y - vskip, 3) == UBASE_ERR_BUSY, "C02: the cropped handle still shares the area: no write mapping");
    }
#else
    c = ubuf_pic_copy(mgr, u, 0, 0, -1, -1);
    VASSERT(c != NULL, "copy succeeds");
    VASSERT(ubase_check(rd(c, x, y, &got)) && got == v, "C02: a copy starts with the same content");
    uint8_t v2 = nd_u8();
    VASSERT(ubase_check(wr(c, x, y, v2)), "C02: a copy owns its memory: the write mapping is granted");
    VASSERT(ubase_check(rd(u, x, y, &got)) && got == v && ubase_check(rd(d, x, y, &got)) && got == v,
            "C02: writing through the copy changes nothing visible through the handles of the original area");
#endif
    ubuf_free(d);
    if (c != NULL)
        ubuf_free(c);
#if VARIANT == 1
    VASSERT(ubase_check(rd(u, x, y, &got)) && got == v, "C02: content intact after the other handles are gone");
    VASSERT(ubase_check(wr(u, x, y, v)), "C02: the last holder is the single owner again: the write mapping is granted");
#endif
    VWITNESS();
    ubuf_free(u);
    mgr->refcount = rc_m;
    umem_mgr->refcount = rc_u;
    ubuf_mgr_release(mgr);
    umem_mgr_release(umem_mgr);
    return 0;
}
#endif
