/* C03 (access paths): every accessor of ubuf_block.h against the byte-string model, on a block
 * whose segmentation SEGS is a discrete selector (driver) and whose bytes, accessor arguments
 * and offset-cache position (one symbolic priming read) are symbolic.
 * ACC selects the accessor: 0 size_linear, 1 read, 2 peek, 3 extract, 4 iovec_count+iovec_read,
 * 5 scan, 6 find (2 octets), 7 compare, 8 equal, 9 match, 10 fresh allocation is one segment. */
#include <sys/uio.h>
#include "blk.h"

#ifndef RANGE
#define RANGE 8
#endif
#define MAXM 8
#ifndef MGR_PREPEND
#define MGR_PREPEND 0
#endif
#ifndef MGR_APPEND
#define MGR_APPEND 0
#endif
#ifndef MGR_ALIGN
#define MGR_ALIGN 0
#endif
#ifndef MGR_ALIGN_OFFSET
#define MGR_ALIGN_OFFSET 0
#endif
#ifndef SMALL_SEGS
#define SMALL_SEGS 1, 1
#endif

static uint8_t m[MAXM];
static int L;
static struct ubuf_mgr *mgr;

static int nd_arg(void)
{
    int v = nd_int();
    VASSUME(v >= -RANGE && v <= RANGE);
    return v;
}
static struct ubuf *build(const int *segs, int nsegs, uint8_t *out, int *len)
{
    struct ubuf *A = NULL;
    int n = 0;
    for (int s = 0; s < nsegs; s++) {
        uint8_t tmp[8];
        for (int i = 0; i < segs[s]; i++)
            out[n + i] = tmp[i] = nd_u8();
        struct ubuf *seg = blk_new(mgr, tmp, segs[s]);
        if (A == NULL)
            A = seg;
        else
            VASSERT(ubase_check(ubuf_block_append(A, seg)), "append succeeds");
        n += segs[s];
    }
    *len = n;
    return A;
}
/* octets remaining in the segment that holds offset o (segments of size 0 hold nothing) */
static int seg_remaining(const int *segs, int nsegs, int o)
{
    int start = 0;
    for (int s = 0; s < nsegs; s++) {
        if (o < start + segs[s])
            return start + segs[s] - o;
        start += segs[s];
    }
    return 0;
}

int main(void)
{
    static const int segs[] = { SEGS };
    const int nsegs = sizeof(segs) / sizeof(segs[0]);
    mgr = blk_mgr_new(MGR_PREPEND, MGR_APPEND, MGR_ALIGN, MGR_ALIGN_OFFSET);
    struct ubuf *A = build(segs, nsegs, m, &L);
    bool hit = false;       /* witness: the interesting branch was taken */
    const bool multi = nsegs > 1;

    /* leave the offset cache anywhere */
#ifndef NO_PRIME
    {
        int off = nd_arg(), sz = 1;
        const uint8_t *p;
        if (ubase_check(ubuf_block_read(A, off, &sz, &p)))
            ubuf_block_unmap(A, off);
    }
#endif

#if ACC == 0
    int off = nd_arg();
    size_t lin = 777;
    int err = ubuf_block_size_linear(A, off, &lin);
    int o = off < 0 ? off + L : off;
    if (o >= 0 && o < L) {
        VASSERT(ubase_check(err), "size_linear in range succeeds");
        VASSERT((int)lin == seg_remaining(segs, nsegs, o), "size_linear = octets left in the segment holding the offset");
        hit = true;
    } else
        VASSERT(!ubase_check(err), "size_linear out of range is refused");
#elif ACC == 1
    int off = nd_arg(), size = nd_arg();
    VASSUME(size == -1 || size >= 1);
    int sz = size;
    const uint8_t *p = NULL;
    int err = ubuf_block_read(A, off, &sz, &p);
    int o = off < 0 ? off + L : off;
    if (o >= 0 && o < L) {
        VASSERT(ubase_check(err), "read in range succeeds");
        int want = size == -1 ? L - o : size;
        int rem = seg_remaining(segs, nsegs, o);
        VASSERT(sz == (want < rem ? want : rem), "read returns min(requested, contiguous) octets");
        for (int i = 0; i < sz; i++)
            VASSERT(p[i] == m[o + i], "read: octets equal the model");
        VASSERT(ubase_check(ubuf_block_unmap(A, off)), "unmap succeeds");
        hit = sz >= 2;
    } else
        VASSERT(!ubase_check(err), "read out of range is refused");
#elif ACC == 2 || ACC == 3
    int off = nd_arg(), size = nd_arg();
    VASSUME(size >= -1);
    uint8_t buf[MAXM + RANGE + 2];
    int o = off < 0 ? off + L : off;
    int want = size == -1 ? L - o : size;
    bool valid = o >= 0 && o < L && want >= 1 && o + want <= L;
    bool invalid = want >= 1 && (o < 0 || o + want > L);     /* zero-size requests touch nothing: either outcome */
#if ACC == 2
    const uint8_t *p = ubuf_block_peek(A, off, size, buf);
    if (valid) {
        VASSERT(p != NULL, "peek in range succeeds");
        for (int i = 0; i < want; i++)
            VASSERT(p[i] == m[o + i], "peek: octets equal the model");
        VASSERT(ubase_check(ubuf_block_peek_unmap(A, off, buf, p)), "peek_unmap succeeds");
        hit = want >= 3 && (p == buf || !multi);
    }
    if (invalid)
        VASSERT(p == NULL, "peek reaching outside the block returns NULL");
#else
    int err = ubuf_block_extract(A, off, size, buf);
    if (valid) {
        VASSERT(ubase_check(err), "extract in range succeeds");
        for (int i = 0; i < want; i++)
            VASSERT(buf[i] == m[o + i], "extract: octets equal the model");
        hit = want >= 3;
    }
    if (invalid)
        VASSERT(!ubase_check(err), "extract reaching outside the block is refused");
#endif
#elif ACC == 4
    int off = nd_arg(), size = nd_arg();
    VASSUME(size >= -1);
    int o = off < 0 ? off + L : off;
    int want = size == -1 ? L - o : size;
    bool valid = o >= 0 && o < L && want >= 1 && o + want <= L;
    bool invalid = want >= 1 && (o < 0 || o + want > L);     /* zero-size requests touch nothing: either outcome */
    int count = ubuf_block_iovec_count(A, off, size);
    if (invalid)
        VASSERT(count == -1, "iovec_count reaching outside the block is refused");
    if (valid) {
        VASSERT(count >= 1 && count <= nsegs, "iovec_count in range: between 1 and the number of segments");
        struct iovec iov[8];
        VASSERT(ubase_check(ubuf_block_iovec_read(A, off, size, iov)), "iovec_read in range succeeds");
        int pos = 0;
        for (int c = 0; c < count; c++) {
            VASSERT(iov[c].iov_len >= 1, "iovec entries are not empty");
            for (unsigned i = 0; i < iov[c].iov_len; i++) {
                VASSERT(pos < want, "iovecs do not exceed the requested size");
                VASSERT(((const uint8_t *)iov[c].iov_base)[i] == m[o + pos], "iovec octets equal the model, in order");
                pos++;
            }
        }
        VASSERT(pos == want, "iovecs cover exactly the requested area");
        VASSERT(ubase_check(ubuf_block_iovec_unmap(A, off, size, iov)), "iovec_unmap succeeds");
        hit = count >= 2 || !multi;
    }
#elif ACC == 5 || ACC == 6
#ifdef START            /* find: the start offset is enumerated by the driver (a symbolic one: no verdict in 250 s / 4.7 GB) */
    int start = START;
#else
    int start = nd_arg();
    VASSUME(start >= 0);
#endif
    uint8_t w0 = nd_u8(), w1 = nd_u8();
    size_t pos = (size_t)start;
    int expect = -1;
#if ACC == 5
    for (int i = L - 1; i >= start; i--)
        if (m[i] == w0)
            expect = i;
    int err = ubuf_block_scan(A, &pos, w0);
#else
    for (int i = L - 2; i >= start; i--)
        if (m[i] == w0 && m[i + 1] == w1)
            expect = i;
    int err = ubuf_block_find(A, &pos, 2, (unsigned)w0, (unsigned)w1);
#endif
    if (expect >= 0) {
        VASSERT(ubase_check(err), "scan/find: a pattern that is present is found");
        VASSERT((int)pos == expect, "scan/find: reports the first occurrence at or after the start offset");
        hit = expect > start && (expect >= segs[0] || !multi);
    } else
        VASSERT(!ubase_check(err), "scan/find: an absent pattern is not found");
#elif ACC == 7 || ACC == 8
    static const int ssegs[] = { SMALL_SEGS };
    uint8_t sm[MAXM];
    int SL;
    struct ubuf *S = build(ssegs, sizeof(ssegs) / sizeof(ssegs[0]), sm, &SL);
#if ACC == 7
    int off = nd_arg();
    VASSUME(off >= 0);
    int err = ubuf_block_compare(A, off, S);
    bool same = off + SL <= L;
    for (int i = 0; i < SL; i++)
        same = same && m[(off + i) % MAXM] == sm[i];
    VASSERT(ubase_check(err) == same, "compare succeeds exactly when the small block occurs at the offset");
    hit = same && off >= 1;
#else
    int err = ubuf_block_equal(A, S);
    bool same = SL == L;
    for (int i = 0; i < SL && i < L; i++)
        same = same && m[i] == sm[i];
    VASSERT(ubase_check(err) == same, "equal succeeds exactly when size and content are the same");
    hit = same;
#endif
#ifdef VERIF_REPLAY
    ubuf_free(S);
#endif
#elif ACC == 9
    uint8_t filter[MAXM], mask[MAXM];
    int size = nd_arg();
    VASSUME(size >= 0 && size <= MAXM);
    bool exp = size <= L;
    for (int i = 0; i < MAXM; i++) {
        filter[i] = nd_u8();
        mask[i] = nd_u8();
        if (i < size && i < L)
            exp = exp && (m[i] & mask[i]) == filter[i];
    }
    int err = ubuf_block_match(A, filter, mask, (size_t)size);
    VASSERT(ubase_check(err) == exp, "match succeeds exactly when the masked leading octets equal the filter");
    hit = exp && size >= 2;
#else
    /* a freshly allocated block is one contiguous segment (doc/rules.mkdoc) */
    int size = nd_arg();
    VASSUME(size >= 0);
    struct ubuf *F = ubuf_block_alloc(mgr, size);
    VASSUME(F != NULL);
    size_t total = 0, lin = 0;
    VASSERT(ubase_check(ubuf_block_size(F, &total)) && (int)total == size, "fresh block has the requested size");
    if (size > 0) {
        VASSERT(ubase_check(ubuf_block_size_linear(F, 0, &lin)) && (int)lin == size, "fresh block is a single contiguous segment");
        int wsize = -1;
        uint8_t *w;
        VASSERT(ubase_check(ubuf_block_write(F, 0, &wsize, &w)) && wsize == size, "fresh block is writable in one piece");
        w[0] = 1;
        w[size - 1] = 2;        /* inside the allocation: CBMC bounds check / ASan */
        ubuf_block_unmap(F, 0);
    }
    hit = size >= 2;
#ifdef VERIF_REPLAY
    ubuf_free(F);
#endif
#endif

#ifdef WITNESS
    VASSUME(hit);
#endif
    VWITNESS();
#ifdef VERIF_REPLAY
    ubuf_free(A);
    blk_mgr_done(mgr);
    blk_umem_done();
#endif
    return 0;
}
