/* C03: segmented block buffers behave like byte strings -- mutator sequences.
 * Real code: include/upipe/ubuf_block.h (all mutators), ubuf_block_common.h, ubuf_block_mem.c,
 * ubuf_mem_common.c, umem_alloc.c.
 * Discrete selectors (case-split by the driver, DESIGN 2.3b): initial segmentation SEGS,
 * manager prepend MGR_PREPEND, the kinds of the K mutators OPS.  Symbolic in every query: all
 * payload bytes, every int argument of every mutator (range [-RANGE, RANGE], RANGE > any size
 * reachable), the offsets of the read probes.
 * Oracle: byte-string model (array + length + "known" flags for bytes exposed by prepend).
 * Argument classes per mutator (see DESIGN 4/C03):
 *   VALID   (documented form, in range)  -> must succeed, block == model afterwards
 *   INVALID (documented form, out of range) -> must be refused, block unchanged
 *   UNSPEC  (forms the documentation does not define, e.g. negative offset for insert) and
 *   MAY     (boundary forms, e.g. insert at offset == size) -> either outcome, but an error must
 *            leave the block unchanged and a success must match the model operation.
 * After every mutator: size == model length and TWO symbolic one-octet reads agree with the
 * model (the second read runs on the offset cache left by the first). */
#include "blk.h"

#ifndef RANGE
#define RANGE 24
#endif
#define MAXM 32
#ifndef MGR_PREPEND
#define MGR_PREPEND 0
#endif
#ifndef SB
#define SB 2            /* size of the helper block used by append / insert */
#endif

/* Buffers are not released in the CBMC build: releasing a chain whose shape depends on symbolic
 * arguments makes symex explore the (recursive, function-pointer driven) free path for every
 * shape (measured: no verdict in 200 s, against 6 s without).  Object lifetime is C01/C02's
 * subject, content is this harness's.  The frees that the mutators perform themselves
 * (truncate, resize, merge) are of course executed.  Native replays do release everything. */
#ifdef VERIF_REPLAY
#define DROP(u) ubuf_free(u)
#else
#define DROP(u) ((void)(u))
#endif

struct mdl { uint8_t b[MAXM]; bool k[MAXM]; int len; };
static struct mdl M;
static struct ubuf_mgr *mgr;
static struct ubuf *A;

/* Arguments of the PREFIX operations are constants chosen by the driver (the block then has a
 * concrete shape when the symbolic operation starts); all other arguments are symbolic. */
static const int *cargs;
static int nd_probe_arg(void)       /* read probes are always symbolic */
{
    int v = nd_int();
    VASSUME(v >= -RANGE && v <= RANGE);
    return v;
}
static int nd_arg(void)
{
    if (cargs != NULL)
        return *cargs++;
    int v = nd_int();
    VASSUME(v >= -RANGE && v <= RANGE);
    return v;
}

/* fresh one-segment block of `size` symbolic octets; bytes reported in out[] */
static struct ubuf *fresh(int size, uint8_t *out)
{
    uint8_t tmp[8];
    for (int i = 0; i < size; i++)
        out[i] = tmp[i] = nd_u8();
    return blk_new(mgr, tmp, size);
}

static void mdl_insert(struct mdl *m, int at, const uint8_t *src, const bool *known, int n)
{
    VASSERT(m->len + n <= MAXM, "harness capacity (model)");
    for (int i = m->len - 1; i >= at; i--) {
        m->b[i + n] = m->b[i];
        m->k[i + n] = m->k[i];
    }
    for (int i = 0; i < n; i++) {
        m->b[at + i] = src ? src[i] : 0;
        m->k[at + i] = known ? known[i] : (src != NULL);
    }
    m->len += n;
}
static void mdl_delete(struct mdl *m, int at, int n)
{
    for (int i = at; i + n < m->len; i++) {
        m->b[i] = m->b[i + n];
        m->k[i] = m->k[i + n];
    }
    m->len -= n;
}
static void mdl_slice(const struct mdl *m, int at, int n, struct mdl *out)
{
    out->len = n;
    for (int i = 0; i < n; i++) {
        out->b[i] = m->b[at + i];
        out->k[i] = m->k[at + i];
    }
}

/* one symbolic single-octet read of block u against model m */
static void probe1(struct ubuf *u, const struct mdl *m)
{
    int off = nd_probe_arg();
    int sz = 1;
    const uint8_t *p = NULL;
    int err = ubuf_block_read(u, off, &sz, &p);
    int o = off < 0 ? off + m->len : off;
    if (o >= 0 && o < m->len) {
        VASSERT(ubase_check(err), "in-range read succeeds");
        VASSERT(sz == 1, "in-range read of one octet returns one octet");
        if (m->k[o])
            VASSERT(p[0] == m->b[o], "octet read through the block equals the byte-string model");
        ubuf_block_unmap(u, off);
    } else
        VASSERT(!ubase_check(err), "out-of-range read is refused");
}
static void probe(struct ubuf *u, const struct mdl *m)
{
    size_t sz = 12345;
    VASSERT(ubase_check(ubuf_block_size(u, &sz)), "size query succeeds");
    VASSERT((int)sz == m->len, "block size equals the model length");
    probe1(u, m);
    probe1(u, m);
}

/* returns whether the operation applied (for witnesses) */
static bool mutate(int kind)
{
    int L = M.len;
    switch (kind) {
        case 0: {               /* append */
            uint8_t bb[8];
            struct ubuf *B = fresh(SB, bb);
            int err = ubuf_block_append(A, B);
            VASSERT(ubase_check(err), "append succeeds");
            mdl_insert(&M, L, bb, NULL, SB);
            return true;
        }
        case 1: {               /* insert */
            uint8_t bb[8];
            struct ubuf *B = fresh(SB, bb);
            int off = nd_arg();
            int err = ubuf_block_insert(A, off, B);
            if (off >= 0 && off < L)
                VASSERT(ubase_check(err), "insert at an in-range offset succeeds");
            if (off > L)
                VASSERT(!ubase_check(err), "insert beyond the end is refused");
            if (ubase_check(err)) {
                if (off >= 0 && off <= L)
                    mdl_insert(&M, off, bb, NULL, SB);
                else {          /* UNSPEC form accepted: documented nowhere; negative = from the end is the house rule */
                    VASSERT(off < 0 && off + L >= 0, "accepted offset designates a position of the block");
                    mdl_insert(&M, off + L, bb, NULL, SB);
                }
                return true;
            }
            DROP(B);            /* refused: the caller still owns it */
            return false;
        }
        case 2: {               /* delete */
            int off = nd_arg(), size = nd_arg();
            int err = ubuf_block_delete(A, off, size);
            bool valid = off >= 0 && off < L && size >= 0 && off + size <= L;
            bool invalid = off > L || (off >= 0 && size >= 0 && off + size > L);
            if (valid)
                VASSERT(ubase_check(err), "delete of an in-range area succeeds");
            if (invalid)
                VASSERT(!ubase_check(err), "delete reaching beyond the end is refused");
            if (ubase_check(err)) {
                int o = off < 0 ? off + L : off;
                int s = size == -1 ? L - o : size;
                VASSERT(o >= 0 && s >= 0 && o + s <= L, "accepted delete designates an area of the block");
                mdl_delete(&M, o, s);
                return true;
            }
            return false;
        }
        case 3: {               /* truncate */
            int off = nd_arg();
            int err = ubuf_block_truncate(A, off);
            if (off >= 0 && off <= L)
                VASSERT(ubase_check(err), "truncate at an in-range offset succeeds");
            if (off > L)
                VASSERT(!ubase_check(err), "truncate beyond the end is refused");
            if (ubase_check(err)) {
                int o = off < 0 ? off + L : off;
                VASSERT(o >= 0 && o <= L, "accepted truncate designates a position of the block");
                M.len = o;
                return true;
            }
            return false;
        }
        case 4: {               /* resize */
            int off = nd_arg(), ns = nd_arg();
            int err = ubuf_block_resize(A, off, ns);
            int o = off < 0 ? off + L : off;
            bool valid = o >= 0 && o <= L && (ns == -1 || (ns >= 0 && o + ns <= L));
            bool invalid = o < 0 || o > L || (ns >= 0 && o + ns > L);
            if (valid)
                VASSERT(ubase_check(err), "resize to an in-range window succeeds");
            if (invalid)
                VASSERT(!ubase_check(err), "resize to a window outside the block is refused");
            if (ubase_check(err)) {
                int s = ns == -1 ? L - o : ns;
                VASSERT(o >= 0 && s >= 0 && o + s <= L, "accepted resize designates a window of the block");
                M.len = o + s;
                mdl_delete(&M, 0, o);
                return true;
            }
            return false;
        }
        case 5: {               /* prepend */
            int p = nd_arg();
            VASSUME(p >= 0);    /* asserted precondition of ubuf_block_prepend */
            int err = ubuf_block_prepend(A, p);
            if (ubase_check(err)) {
                mdl_insert(&M, 0, NULL, NULL, p);       /* p octets of unspecified content in front */
                return true;
            }
            return false;
        }
        case 6: {               /* splice: a new block sharing [o, o+s) */
#ifdef SPLICE_OFF               /* arguments enumerated by the driver (see checks/C03.py): symbolic ones make the
                                 * shape of the new chain symbolic and symex does not finish (measured > 300 s) */
            int off = SPLICE_OFF, size = SPLICE_SIZE;
#else
            int off = nd_arg(), size = nd_arg();
#endif
            struct ubuf *C = ubuf_block_splice(A, off, size);
            int o = off < 0 ? off + L : off;
            bool valid = o >= 0 && o < L && (size == -1 || (size >= 0 && o + size <= L));
            bool invalid = o < 0 || o > L || (size >= 0 && o + size > L);
            if (valid)
                VASSERT(C != NULL, "splice of an in-range area succeeds");
            if (invalid)
                VASSERT(C == NULL, "splice reaching outside the block is refused");
            if (C != NULL) {
                int s = size == -1 ? L - o : size;
                VASSERT(o >= 0 && s >= 0 && o + s <= L, "accepted splice designates an area of the block");
                struct mdl mc;
                mdl_slice(&M, o, s, &mc);
                probe(C, &mc);
                DROP(C);
                return true;    /* the original is unchanged: checked by the caller's probe */
            }
            return false;
        }
        case 7: {               /* split */
            int off = nd_arg();
            struct ubuf *T = ubuf_block_split(A, off);
            int o = off < 0 ? off + L : off;
            if (o >= 0 && o < L)
                VASSERT(T != NULL, "split at an in-range offset succeeds");
            if (o < 0 || o > L)
                VASSERT(T == NULL, "split outside the block is refused");
            if (T != NULL) {
                VASSERT(o >= 0 && o <= L, "accepted split designates a position of the block");
                struct mdl mt;
                mdl_slice(&M, o, L - o, &mt);
                probe(T, &mt);
                DROP(T);
                M.len = o;
                return true;
            }
            return false;
        }
        case 8:                 /* merge (copy + replace) */
        case 9: {               /* copy */
            int skip = nd_arg(), ns = nd_arg();
            VASSUME(skip >= -10 && ns <= 10);       /* stated bound: keeps the result within the model capacity */
            struct ubuf *R = NULL;
            int err = UBASE_ERR_NONE;
            if (kind == 8)
                err = ubuf_block_merge(mgr, &A, skip, ns);
            else
                R = ubuf_block_copy(mgr, A, skip, ns);
            bool ok = kind == 8 ? ubase_check(err) : R != NULL;
            int n = ns == -1 ? L - skip : ns;
            /* zero-size results and results that contain none of the source are boundary forms (MAY) */
            bool valid = skip <= L && (ns == -1 || ns >= 0) && n > 0 && n > -skip;
            if (valid)
                VASSERT(ok, "copy/merge with documented arguments succeeds");
            if (skip > L)
                VASSERT(!ok, "copy/merge skipping more than the block holds is refused");
            if (ok) {
                VASSERT(n >= 0 && n <= MAXM, "accepted copy has a sensible size");
                struct mdl mr;
                mr.len = n;
                for (int i = 0; i < n; i++) {
                    int src = i + skip;
                    mr.k[i] = src >= 0 && src < L && M.k[src];
                    mr.b[i] = mr.k[i] ? M.b[src] : 0;
                }
                if (kind == 8)
                    M = mr;
                else {
                    size_t lin = 0;
                    probe(R, &mr);
                    if (n > 0)
                        VASSERT(ubase_check(ubuf_block_size_linear(R, 0, &lin)) && (int)lin == n,
                                "a copy is a single contiguous segment");
                    DROP(R);
                }
                return true;
            }
            return false;
        }
        case 11: {              /* append a block that is itself segmented (two chained segments) */
            uint8_t b1[8], b2[8];
            struct ubuf *B = fresh(1, b1), *B2 = fresh(SB, b2);
            VASSERT(ubase_check(ubuf_block_append(B, B2)), "append succeeds");
            int err = ubuf_block_append(A, B);
            VASSERT(ubase_check(err), "append of a segmented block succeeds");
            mdl_insert(&M, L, b1, NULL, 1);
            mdl_insert(&M, L + 1, b2, NULL, SB);
            return true;
        }
        default: {              /* dup */
            struct ubuf *D = ubuf_dup(A);
            VASSERT(D != NULL, "dup succeeds");
            probe(D, &M);
            DROP(D);
            return true;
        }
    }
    return false;
}

int main(void)
{
    static const int segs[] = { SEGS };
    static const int ops[] = { OPS };
    const int nsegs = sizeof(segs) / sizeof(segs[0]);
    mgr = blk_mgr_new(MGR_PREPEND, 0, 0, 0);
    M.len = 0;
    for (int s = 0; s < nsegs; s++) {
        uint8_t bb[8];
        struct ubuf *seg = fresh(segs[s], bb);
        if (s == 0)
            A = seg;
        else
            VASSERT(ubase_check(ubuf_block_append(A, seg)), "append succeeds");
        mdl_insert(&M, M.len, bb, NULL, segs[s]);
    }
#ifdef PREFIX
    {
        /* PREFIX = kind, arg1, arg2, kind, arg1, arg2, ... with concrete arguments */
        static const int pre[] = { PREFIX };
        for (unsigned k = 0; k + 2 < sizeof(pre) / sizeof(pre[0]); k += 3) {
            struct mdl before = M;
            cargs = &pre[k + 1];
            bool applied = mutate(pre[k]);
            cargs = NULL;
            if (!applied)
                M = before;
        }
        cargs = NULL;
    }
#endif
#ifdef PRIME
    probe1(A, &M);      /* leave the offset cache somewhere (symbolic) before the first mutator */
#endif
    bool applied_all = true;
    for (unsigned k = 0; k < sizeof(ops) / sizeof(ops[0]); k++) {
        struct mdl before = M;
        bool applied = mutate(ops[k]);
        if (!applied)
            M = before;         /* an operation that reports an error leaves size and content unchanged */
        applied_all = applied_all && applied;
        probe(A, &M);
    }
#if defined(WITNESS) && !defined(WITNESS_ANY)
    VASSUME(applied_all);       /* the twin shows the operation can be applied (WITNESS_ANY: only that the end is reachable) */
#endif
    VWITNESS();
    DROP(A);
#ifdef VERIF_REPLAY
    blk_mgr_done(mgr);
    blk_umem_done();
#endif
    return 0;
}
