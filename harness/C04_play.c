/* C04 on a pipe with sub-pipes: lib/upipe-modules/upipe_play.c (real upipe_helper_subpipe / output / urefcount).
 * The play pipe stamps the total latency (largest input latency seen + sink latency) on the flow definition of EVERY
 * sub-pipe, so a change caused by one sub-pipe (or by a sink's latency answer) changes the flow definition of the
 * others: each output must then receive and accept the new definition before its next buffer.
 * OPS (driver-enumerated):
 *   0 SUB0.set_flow_def(latency 0)   1 SUB0.set_flow_def(latency 5)   2 SUB1.set_flow_def(latency 9)   3 SUB1.set_flow_def(latency 2)
 *   4 input SUB0   5 input SUB1   6 set_output(SUB0, S0)   7 set_output(SUB1, S1)
 *   8 S0 answers the sink-latency request lodged with it with DEFAULT + 7   9 S1 answers with 3 (below the default: ignored)
 * Monitors at the sinks, online: a buffer reaches sink i only from sub-pipe i, and at that moment the last definition
 * the sink accepted equals the sub-pipe's CURRENT one (attribute by attribute); ready is the first and dead the last event of each of the three pipes. */
#define ENV_SINK_HOOKS 1
#define ENV_MAXEV 60
#include "pipe_env.h"
#include "upipe/uref_clock.h"
#include "lib/upipe-modules/upipe_play.c"

static struct upipe *PLAY, *SUB[2];
static bool sub_dead[2];
static struct uref *sent[2][4];
static unsigned n_sent[2], n_deliv[2];
static int connected[2] = { -1, -1 };
static bool m_has_def[2];

static struct urequest *lodged[2][3];
static int nlodged[2];
static int sink_control(struct upipe *upipe, int command, va_list args)
{
    int id = env_sink_of(upipe)->id;
    if (command == UPIPE_REGISTER_REQUEST) {
        struct urequest *r = va_arg(args, struct urequest *);
        VASSERT(nlodged[id] < 3, "harness capacity: lodged requests");
        lodged[id][nlodged[id]++] = r;
        return UBASE_ERR_NONE;
    }
    if (command == UPIPE_UNREGISTER_REQUEST) {
        struct urequest *r = va_arg(args, struct urequest *);
        int found = -1;
        for (int i = 0; i < nlodged[id]; i++)
            if (lodged[id][i] == r)
                found = i;
        VASSERT(found >= 0, "only a request that is lodged with this output is withdrawn from it");
        for (int i = found; i + 1 < nlodged[id]; i++)
            lodged[id][i] = lodged[id][i + 1];
        nlodged[id]--;
        return UBASE_ERR_NONE;
    }
    return env_sink_control(upipe, command, args);
}

static void env_on_sink_flowdef(int sink, bool accepted, struct uref *flow_def)
{
    (void)accepted;
    VASSERT(connected[sink] == sink && !sub_dead[sink], "C04: a flow definition reaches a sink only from the live sub-pipe connected to it");
    VASSERT(flow_def != NULL, "C04: the definition sent downstream exists");
}
static void env_on_sink_input(int sink, struct uref *uref)
{
    VASSERT(connected[sink] == sink && !sub_dead[sink], "C04: a buffer reaches a sink only from the live sub-pipe connected to it");
    VASSERT(n_deliv[sink] < n_sent[sink] && sent[sink][n_deliv[sink]] == uref, "C05: buffers of a sub-pipe arrive in order, once");
    n_deliv[sink]++;
    struct env_sink *s = &env_sinks[sink];
    struct uref *cur = NULL;
    VASSERT(ubase_check(upipe_get_flow_def(SUB[sink], &cur)) && cur != NULL, "C04: the sub-pipe has a current flow definition when it outputs");
    VASSERT(s->flowdef_current && s->flow_def != NULL, "C04: the output accepted a flow definition before the buffer");
    VASSERT(udict_cmp(s->flow_def->udict, cur->udict) == 0,
            "C04: the output received and accepted the CURRENT flow definition (again after every change) before this buffer");
}

static void order(struct upipe *p, bool dead)
{
    int first = -1, last = -1;
    unsigned ndead = 0, nready = 0;
    for (unsigned i = 0; i < env_nev; i++)
        if (env_ev[i].pipe == p) {
            if (first < 0)
                first = (int)i;
            last = (int)i;
            ndead += env_ev[i].event == UPROBE_DEAD;
            nready += env_ev[i].event == UPROBE_READY;
        }
    VASSERT(first >= 0 && env_ev[first].event == UPROBE_READY && nready == 1, "C04: ready is the first event a pipe throws, once");
    if (dead)
        VASSERT(ndead == 1 && env_ev[last].event == UPROBE_DEAD, "C04: dead is thrown exactly once, as the very last event");
    else
        VASSERT(ndead == 0, "C04: dead not thrown while references remain");
}

static void set_def(int sub, uint64_t latency)
{
    struct uref *fd = env_flow_def("block.");
    VASSERT(ubase_check(uref_clock_set_latency(fd, latency)), "harness: latency attribute set");
    VASSERT(ubase_check(upipe_set_flow_def(SUB[sub], fd)), "flow definition accepted");
    uref_free(fd);
    m_has_def[sub] = true;
}

int main(void)
{
    static const int ops[] = { OPS };
    env_init();
    env_probe_init();
    env_sinks_init();
    env_sink_mgr.upipe_control = sink_control;
    struct upipe_mgr *mgr = upipe_play_mgr_alloc();
    PLAY = upipe_void_alloc(mgr, uprobe_use(&env_probe));
    VASSUME(PLAY != NULL);
    for (int i = 0; i < 2; i++) {
        SUB[i] = upipe_void_alloc_sub(PLAY, uprobe_use(&env_probe));
        VASSUME(SUB[i] != NULL);
    }
    for (unsigned k = 0; k < sizeof(ops) / sizeof(ops[0]); k++) {
        switch (ops[k]) {
            case 0: set_def(0, 0); break;
            case 1: set_def(0, 5); break;
            case 2: set_def(1, 9); break;
            case 3: set_def(1, 2); break;
            case 4: case 5: {
                int i = ops[k] - 4;
                VASSERT(n_sent[i] < 4, "harness capacity: inputs");
                uint8_t b = nd_u8();
                struct uref *u = env_block_uref(&b, 1);
                sent[i][n_sent[i]++] = u;
                upipe_input(SUB[i], u, NULL);
                if (connected[i] < 0 || !m_has_def[i])
                    n_deliv[i] = n_sent[i];     /* no output / no definition: dropped (documented), never delivered later */
                break;
            }
            case 6: case 7: {
                int i = ops[k] - 6;
                connected[i] = i;       /* from now on the sink may be spoken to */
                VASSERT(ubase_check(upipe_set_output(SUB[i], &env_sinks[i].upipe)), "set_output succeeds");
                env_sinks[i].flowdef_current = false;
                break;
            }
            case 8:
                if (nlodged[0] > 0) {
                    VASSERT(ubase_check(urequest_provide_sink_latency(lodged[0][0], DEFAULT_OUTPUT_LATENCY + 7)), "answer accepted");
                }
                break;
            default:
                if (nlodged[1] > 0)
                    VASSERT(ubase_check(urequest_provide_sink_latency(lodged[1][0], 3)), "answer accepted");
                break;
        }
        order(PLAY, false);
        order(SUB[0], false);
        order(SUB[1], false);
    }
#ifdef WITNESS
    VASSUME(n_deliv[0] + n_deliv[1] >= WITNESS_DELIVERED);
#endif
    VWITNESS();
    for (int i = 0; i < 2; i++) {
        upipe_release(SUB[i]);
        sub_dead[i] = true;
        order(SUB[i], true);
    }
    upipe_release(PLAY);
    order(PLAY, true);
    for (int i = 0; i < 2; i++) {
        VASSERT(n_deliv[i] == n_sent[i], "C05: every buffer handed to a connected, negotiated sub-pipe was delivered");
        VASSERT(nlodged[i] == 0, "C12: nothing stays lodged with an output after the sub-pipe is gone");
        VASSERT(!env_sinks[i].dead && uatomic_load(&env_sinks[i].refcount.refcount) == 1, "C01: every reference on the outputs was returned");
    }
    env_sinks_done();
    upipe_mgr_release(mgr);
    env_done();
    return 0;
}
