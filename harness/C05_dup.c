/* C05 / C04 / C01 on a duplicating split: lib/upipe-modules/upipe_dup.c (real upipe_helper_subpipe / output /
 * urefcount_real).  "A duplicating split delivers every input to every one of its outputs": outputs are the
 * sub-pipes alive at the time of the input (each connected to its own sink) plus the main output if one is set.
 * OPS (driver-enumerated):
 *   0 set_flow_def("block.")  1 set_flow_def("block.other.")  2 input (octet 0 = sequence number, octet 1 symbolic)
 *   3 create output sub-pipe 0 and connect it to S0   4 same for sub-pipe 1 / S1   5 release sub-pipe 0   6 release sub-pipe 1
 *   7 set_output(main, S2)   8 set_output(main, NULL)
 * Monitors at the sinks: sink i receives exactly the inputs made while its sub-pipe (or the main connection) existed
 * and a definition was set, in order, once each, with the payload unchanged; the definition it accepted before is the
 * CURRENT one; ready first / dead last for every pipe; at the end everything is released (leak check). */
#define ENV_SINK_HOOKS 1
#define ENV_MAXEV 60
#define ENV_NSINKS 3
#define ENV_MAXIN 8
#include "pipe_env.h"
#include "lib/upipe-modules/upipe_dup.c"

#define MAXIN 6
static struct upipe *DUP, *SUB[2];
static bool dup_dead, sub_alive[2], main_set;
static int cur_def = -1;
static uint8_t sym[MAXIN];
static unsigned n_sent;
static unsigned want[ENV_NSINKS][MAXIN], nwant[ENV_NSINKS], got[ENV_NSINKS];
static int sink_def[ENV_NSINKS] = { -1, -1, -1 };

static bool attached(int sink)
{
    return sink < 2 ? sub_alive[sink] : main_set;
}
static void env_on_sink_flowdef(int sink, bool accepted, struct uref *flow_def)
{
    VASSERT(!dup_dead && attached(sink), "C04: a flow definition reaches a sink only from a live pipe connected to it");
    const char *def = NULL;
    VASSERT(flow_def != NULL && ubase_check(uref_flow_get_def(flow_def, &def)) && def != NULL, "C04: the definition carries a definition string");
    if (accepted)
        sink_def[sink] = !strcmp(def, "block.") ? 0 : !strcmp(def, "block.other.") ? 1 : 2;
}
static void env_on_sink_input(int sink, struct uref *uref)
{
    VASSERT(!dup_dead && attached(sink), "C05: a buffer reaches a sink only from a live pipe connected to it");
    VASSERT(sink_def[sink] == cur_def, "C04: the output accepted the CURRENT flow definition before this buffer");
    VASSERT(got[sink] < nwant[sink], "C05: more buffers delivered to an output than inputs made while it existed (duplication / invention)");
    uint8_t b[2];
    size_t size = 0;
    VASSERT(uref->ubuf != NULL && ubase_check(uref_block_size(uref, &size)) && size == 2, "C05: the duplicate carries the whole payload");
    VASSERT(ubase_check(uref_block_extract(uref, 0, 2, b)), "C05: payload readable");
    VASSERT(b[0] == want[sink][got[sink]], "C05: every output receives every input, in input order, once");
    VASSERT(b[0] < MAXIN && b[1] == sym[b[0]], "C05: the payload is unchanged");
    got[sink]++;
}

static void order(struct upipe *p, bool dead)
{
    int first = -1, last = -1;
    unsigned ndead = 0, nready = 0;
    for (unsigned i = 0; i < env_nev; i++)
        if (env_ev[i].pipe == p) {
            if (first < 0)
                first = (int)i;
            last = (int)i;
            ndead += env_ev[i].event == UPROBE_DEAD;
            nready += env_ev[i].event == UPROBE_READY;
        }
    VASSERT(first >= 0 && env_ev[first].event == UPROBE_READY && nready == 1, "C04: ready is the first event a pipe throws, once");
    if (dead)
        VASSERT(ndead == 1 && env_ev[last].event == UPROBE_DEAD, "C04: dead is thrown exactly once, as the very last event");
    else
        VASSERT(ndead == 0, "C04: dead not thrown while references remain");
}
static void release_sub(int i)
{
    if (!sub_alive[i])
        return;
    struct upipe *p = SUB[i];
    sub_alive[i] = false;
    upipe_release(p);
    order(p, true);
    VASSERT(got[i] == nwant[i], "C05: an output received everything input while it existed");
}

int main(void)
{
    static const int ops[] = { OPS };
    env_init();
    env_probe_init();
    env_sinks_init();
    DUP = upipe_void_alloc(upipe_dup_mgr_alloc(), uprobe_use(&env_probe));
    VASSUME(DUP != NULL);
    for (unsigned k = 0; k < sizeof(ops) / sizeof(ops[0]); k++) {
        switch (ops[k]) {
            case 0: case 1: {
                struct uref *fd = env_flow_def(ops[k] == 0 ? "block." : "block.other.");
                VASSERT(ubase_check(upipe_set_flow_def(DUP, fd)), "flow definition accepted");
                uref_free(fd);
                cur_def = ops[k];
                break;
            }
            case 2: {
                VASSERT(n_sent < MAXIN, "harness capacity: inputs");
                uint8_t b[2] = { (uint8_t)n_sent, nd_u8() };
                sym[n_sent] = b[1];
                if (cur_def >= 0)
                    for (int s = 0; s < ENV_NSINKS; s++)
                        if (attached(s))
                            want[s][nwant[s]++] = n_sent;
                n_sent++;
                upipe_input(DUP, env_block_uref(b, 2), NULL);
                for (int s = 0; s < ENV_NSINKS; s++)
                    VASSERT(got[s] == nwant[s], "C05: a duplicating split delivers every input to every one of its outputs");
                break;
            }
            case 3: case 4: {
                int i = ops[k] - 3;
                if (sub_alive[i])
                    break;
                SUB[i] = upipe_void_alloc_sub(DUP, uprobe_use(&env_probe));
                VASSUME(SUB[i] != NULL);
                sub_alive[i] = true;
                VASSERT(ubase_check(upipe_set_output(SUB[i], &env_sinks[i].upipe)), "output connected");
                sink_def[i] = -1;
                break;
            }
            case 5: release_sub(0); break;
            case 6: release_sub(1); break;
            case 7:
                main_set = true;
                VASSERT(ubase_check(upipe_set_output(DUP, &env_sinks[2].upipe)), "main output connected");
                sink_def[2] = -1;
                break;
            default:
                VASSERT(ubase_check(upipe_set_output(DUP, NULL)), "main output removed");
                main_set = false;
                break;
        }
        order(DUP, false);
        for (int i = 0; i < 2; i++)
            if (sub_alive[i])
                order(SUB[i], false);
    }
#ifdef WITNESS
    VASSUME(got[0] + got[1] + got[2] >= WITNESS_DELIVERED);
#endif
    VWITNESS();
    /* the application lets go of the split first (end of source for the outputs), then of the outputs */
    upipe_release(DUP);
    release_sub(0);
    release_sub(1);
    dup_dead = true;
    main_set = false;
    order(DUP, true);
    for (int s = 0; s < ENV_NSINKS; s++) {
        VASSERT(got[s] == nwant[s], "C05: every output received everything input while it existed");
        VASSERT(!env_sinks[s].dead && uatomic_load(&env_sinks[s].refcount.refcount) == 1, "C01: every reference on the outputs was returned");
    }
    env_sinks_done();
    env_done();
    return 0;
}
