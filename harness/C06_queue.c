/* C06 (queue part): buffers cross the thread boundary exactly once, in order, through queue sink / queue source.
 * Real code: lib/upipe-modules/upipe_queue_sink.c, upipe_queue_source.c, upipe_queue.c, include/upipe/uqueue.h,
 * ufifo.h, ueventfd.h, upipe_helper_input.h / output.h / upump.h, lib/upipe/upump_common.c, over the real uref /
 * block managers.  The two threads are sequentialised: the producer thread's calls (set_flow_def, input, flush,
 * release) are the script OPS (discrete selector, enumerated by the driver); the callbacks that the two event loops
 * may run (consumer: queue worker, out-of-band worker; producer: push watcher, upstream out-of-band worker) are
 * part of the script as well (operations 7-9: run that callback if its watcher is active and its event descriptor
 * readable, as the event loop would; otherwise nothing happens).  A symbolic choice of the callback was tried and
 * dropped: one symbolic scheduling step already gives no verdict in 600 s (the heap shapes of the branches merge).
 * Granularity: a callback / API call is one step (see DESIGN: the two threads share only the three uqueues, whose
 * own interleavings are C07 / C08's subject).
 * Environment models: eventfd(2) (a counter per descriptor: eventfd_read returns and resets it or fails with EAGAIN,
 * eventfd_write adds), close(2); the event loop is upump_mock.h (real upump_common.c on top).
 *   0 set_flow_def("block.")   1 set_flow_def("block.other.")   2 input(next buffer)   3 flush
 *   4 release the queue sink   5 release the application's reference on the queue source
 *   7 consumer worker   8 consumer oob   9 producer watcher   (7-9: if ready)
 *   10 set_output(queue sink, S1)   11 set_output(queue sink, NULL)     (pseudo-output: only a reference is kept)
 *   12 register a sink-latency request on the queue sink   13 unregister it   14 the consumer-side sink answers what is
 *   lodged with it   15 producer oob callback (answers travelling back)          (C12 across the queue)
 *   16 set_max_length(queue sink, symbolic) + get   17 every getter of both pipes               (C20)
 *   21-24 / 26-29 arm a nested callback at the k-th queue push / pop from now (finer than callback granularity)
 * After the script both pipes are released (if not yet) and the loops run until nothing is ready. */
#define ENV_WITH_UPUMP 1
#define ENV_SINK_HOOKS 1
#define ENV_MAXEV 48
#define ENV_NSINKS 2
#include <errno.h>
#include <unistd.h>
#include <sys/eventfd.h>
#include "pipe_env.h"

/* ---- eventfd model ---- */
#ifndef VERIF_REPLAY
#define MDL_NFD 8
static uint64_t mdl_cnt[MDL_NFD];
static bool mdl_open[MDL_NFD];
static int mdl_nfd;
int eventfd(unsigned int initval, int flags)
{
    (void)flags;
    VASSERT(mdl_nfd < MDL_NFD, "harness capacity: event descriptors");
    mdl_cnt[mdl_nfd] = initval;
    mdl_open[mdl_nfd] = true;
    return mdl_nfd++;
}
int eventfd_read(int fd, eventfd_t *value)
{
    VASSERT(fd >= 0 && fd < mdl_nfd && mdl_open[fd], "read on a closed or unknown event descriptor");
    if (mdl_cnt[fd] == 0) {
        errno = EAGAIN;
        return -1;
    }
    *value = mdl_cnt[fd];
    mdl_cnt[fd] = 0;
    return 0;
}
int eventfd_write(int fd, eventfd_t value)
{
    VASSERT(fd >= 0 && fd < mdl_nfd && mdl_open[fd], "write on a closed or unknown event descriptor");
    mdl_cnt[fd] += value;
    return 0;
}
int close(int fd)
{
    VASSERT(fd >= 0 && fd < mdl_nfd && mdl_open[fd], "close on a closed or unknown event descriptor");
    mdl_open[fd] = false;
    return 0;
}
static bool mdl_readable(int fd)
{
    return fd >= 0 && fd < mdl_nfd && mdl_open[fd] && mdl_cnt[fd] > 0;
}
#else
#include <poll.h>
static bool mdl_readable(int fd)
{
    struct pollfd p = { .fd = fd, .events = POLLIN, .revents = 0 };
    return poll(&p, 1, 0) > 0 && (p.revents & POLLIN);
}
#endif

/* Finer than a callback: the other thread's callback may run BETWEEN two queue operations of one call.  The pipes'
 * uqueue_push / uqueue_pop go through these wrappers (the real inline functions underneath); operations 21-24 arm
 * "before the k-th push from now, the consumer's worker runs", 26-29 "before the k-th pop from now, the producer's
 * watcher runs" (if ready, as always). */
#include "upipe/uqueue.h"
static int arm_push, arm_pop;
static bool in_nested;
static bool run_cb(int which);
static inline bool hk_uqueue_push(struct uqueue *q, void *e)
{
    if (arm_push > 0 && !in_nested && --arm_push == 0) {
        in_nested = true;
        (void)run_cb(1);
        in_nested = false;
    }
    return (uqueue_push)(q, e);
}
static inline void *hk_uqueue_pop(struct uqueue *q)
{
    if (arm_pop > 0 && !in_nested && --arm_pop == 0) {
        in_nested = true;
        (void)run_cb(3);
        in_nested = false;
    }
    return uqueue_pop_internal(q);
}
#define uqueue_push(q, e) hk_uqueue_push(q, e)
#undef uqueue_pop
#define uqueue_pop(q, type) (type)hk_uqueue_pop(q)
#include "lib/upipe-modules/upipe_queue.c"
#include "lib/upipe-modules/upipe_queue_source.c"
#include "lib/upipe-modules/upipe_queue_sink.c"

#ifndef LEN
#define LEN 1
#endif
#ifndef SETTLE
#define SETTLE 12
#endif
#define MAXIN 5
static struct upipe *QSRC, *QSINK;
static bool qsrc_dead, qsink_released, qsrc_released, flushed;
static struct uref *sent_uref[MAXIN];
static int sent_def[MAXIN];             /* flow definition in force when the buffer was sent */
static unsigned n_sent, delivered;
static unsigned int max_length;         /* of the queue sink's spool (helper_input default: 0) */
static struct upipe *pseudo;            /* the queue sink's pseudo-output */
static int cur_def = -1;                /* at the producer */
static int sink_def = -1;               /* last definition accepted by the consumer-side sink */

static void env_on_sink_flowdef(int sink, bool accepted, struct uref *flow_def)
{
    (void)sink;
    VASSERT(!qsrc_dead, "the queue source touches its output after throwing dead");
    const char *def = NULL;
    VASSERT(flow_def != NULL && ubase_check(uref_flow_get_def(flow_def, &def)) && def != NULL, "flow definition carries a definition string");
    if (accepted)
        sink_def = !strcmp(def, "block.") ? 0 : !strcmp(def, "block.other.") ? 1 : 2;
}
static void env_on_sink_input(int sink, struct uref *uref)
{
    VASSERT(sink == 0, "C06: buffers only reach the output of the queue source (the sink's pseudo-output gets nothing)");
    VASSERT(!qsrc_dead, "the queue source touches its output after throwing dead");
    VASSERT(env_count(QSRC, UPROBE_SOURCE_END) == 0, "C06: a buffer is delivered after end-of-source was signalled");
    VASSERT(delivered < n_sent, "C06: more buffers delivered than sent (duplication or invention)");
    unsigned k = delivered;
    if (flushed)                        /* flush drops what the sink still holds: later buffers may be missing */
        while (k < n_sent && sent_uref[k] != uref)
            k++;
    VASSERT(k < n_sent && sent_uref[k] == uref, "C06: buffers arrive exactly once and in order on the other side of the queue");
    delivered = k + 1;
    VASSERT(sink_def == sent_def[k], "C06: every buffer is preceded by the flow definition it was sent under");
}

/* ---- C12 across the queue: one sink-latency request registered on the queue sink by the harness; the consumer-side
 * sink S0 is the provider (it keeps what is lodged with it and answers on operation 14) ---- */
static struct urequest RQ;
static bool rq_registered, rq_provided;
static unsigned rq_answers;
static uint64_t rq_vals[6];
static int rq_nvals, rq_next;
static struct urequest *lodged[4];
static int nlodged;
static int rq_provide(struct urequest *urequest, va_list args)
{
    VASSERT(urequest == &RQ, "C12: the answer is delivered to the original request");
    VASSERT(rq_registered, "C12: after a request has been unregistered its callback is never invoked again (across the queue)");
    uint64_t v = va_arg(args, uint64_t);
    /* the answers of the current registration arrive in the order they were given (some may be skipped, never invented) */
    bool match = false;
    while (rq_next < rq_nvals && !match)
        match = rq_vals[rq_next++] == v;
    VASSERT(rq_provided && match, "C12: the answer carries a value the provider gave during this registration, in order");
    rq_answers++;
    return UBASE_ERR_NONE;
}
static int sink_control(struct upipe *upipe, int command, va_list args)
{
    if (env_sink_of(upipe)->id == 0 && command == UPIPE_REGISTER_REQUEST) {
        struct urequest *r = va_arg(args, struct urequest *);
        VASSERT(nlodged < 4, "harness capacity: lodged requests");
        lodged[nlodged++] = r;
        return UBASE_ERR_NONE;
    }
    if (env_sink_of(upipe)->id == 0 && command == UPIPE_UNREGISTER_REQUEST) {
        struct urequest *r = va_arg(args, struct urequest *);
        int found = -1;
        for (int i = 0; i < nlodged; i++)
            if (lodged[i] == r)
                found = i;
        VASSERT(found >= 0, "C12: only a request that is lodged with the provider is withdrawn from it");
        for (int i = found; i + 1 < nlodged; i++)
            lodged[i] = lodged[i + 1];
        nlodged--;
        return UBASE_ERR_NONE;
    }
    return env_sink_control(upipe, command, args);
}

static struct upump *find_pump(upump_cb cb)
{
    struct upump_mock_mgr *mm = upump_mock_mgr_from_upump_mgr(env_upump_mgr);
    for (unsigned i = 0; i < mm->n_pumps; i++)
        if (mm->pumps[i] != NULL && mm->pumps[i]->cb == cb)
            return mm->pumps[i];
    return NULL;
}
static bool ready(struct upump *p)
{
    return p != NULL && mock_can_fire(p) && mdl_readable(mock_of(p)->fd);
}
/* run callback #which (1 consumer worker, 2 consumer oob, 3 producer watcher, 4 producer oob) if its loop would */
static bool run_cb(int which)
{
    upump_cb cb = which == 1 ? upipe_qsrc_worker : which == 2 ? upipe_qsrc_oob : which == 3 ? upipe_qsink_watcher : upipe_qsink_oob;
    struct upump *p = find_pump(cb);
    if (!ready(p))
        return false;
    mock_fire(p);
    return true;
}

/* The out-of-band queues have 255 slots in reality and UPIPE_VERIF_OOB_QUEUES (4) here: before an operation that posts
 * downstream messages the consumer's out-of-band worker runs if fewer than two slots are free, so that the shortened
 * queue never constrains a schedule in a way the real one would not. */
static void oob_room(void)
{
    for (int i = 0; i < UPIPE_VERIF_OOB_QUEUES; i++) {
        if (env_count(QSRC, UPROBE_DEAD) != 0 ||
            uqueue_length(&upipe_queue(QSRC)->downstream_oob) + 2 <= UPIPE_VERIF_OOB_QUEUES)
            return;
        if (!run_cb(2))
            return;
    }
}

int main(void)
{
    static const int ops[] = { OPS };
    env_init();
    env_probe_init();
    env_sinks_init();
    env_sink_mgr.upipe_control = sink_control;
    urequest_init_sink_latency(&RQ, rq_provide, NULL);
    QSRC = upipe_qsrc_alloc(upipe_qsrc_mgr_alloc(), uprobe_use(&env_probe), LEN);
    VASSUME(QSRC != NULL);
    VASSERT(ubase_check(upipe_set_output(QSRC, &env_sinks[0].upipe)), "output connected");
    QSINK = upipe_qsink_alloc(upipe_qsink_mgr_alloc(), uprobe_use(&env_probe), QSRC);
    VASSUME(QSINK != NULL);

    for (unsigned k = 0; k < sizeof(ops) / sizeof(ops[0]); k++) {
        switch (ops[k]) {
            case 0: case 1: {
                struct uref *fd = env_flow_def(ops[k] == 0 ? "block." : "block.other.");
                VASSERT(ubase_check(upipe_set_flow_def(QSINK, fd)), "flow definition accepted by the queue sink");
                uref_free(fd);
                cur_def = ops[k];
                break;
            }
            case 2: {
                VASSERT(n_sent < MAXIN, "harness capacity: inputs");
                uint8_t b = nd_u8();
                struct uref *u = env_block_uref(&b, 1);
                sent_uref[n_sent] = u;
                sent_def[n_sent] = cur_def;
                n_sent++;
                upipe_input(QSINK, u, NULL);
                break;
            }
            case 3:
                (void)upipe_flush(QSINK);
                flushed = true;
                break;
            case 4:
                oob_room();
                if (!qsink_released) {
                    qsink_released = true;
                    upipe_release(QSINK);
                }
                break;
            case 5:
                oob_room();
                if (!qsrc_released) {
                    qsrc_released = true;
                    upipe_release(QSRC);
                }
                break;
            case 10:        /* the queue sink's pseudo-output (a stored reference, nothing is sent to it) */
                VASSERT(ubase_check(upipe_set_output(QSINK, &env_sinks[1].upipe)), "pseudo-output accepted");
                pseudo = &env_sinks[1].upipe;
                break;
            case 11:
                VASSERT(ubase_check(upipe_set_output(QSINK, NULL)), "pseudo-output removed");
                pseudo = NULL;
                break;
            case 12:
                oob_room();
                VASSERT(ubase_check(upipe_register_request(QSINK, &RQ)), "request accepted by the queue sink");
                rq_registered = true;
                break;
            case 13:
                oob_room();
                if (rq_registered) {
                    VASSERT(ubase_check(upipe_unregister_request(QSINK, &RQ)), "request withdrawn from the queue sink");
                    rq_registered = false;
                    rq_provided = false;
                    rq_nvals = rq_next = 0;
                }
                break;
            case 14:        /* the provider answers what is lodged with it (symbolic value) */
                if (nlodged > 0) {
                    uint64_t value = nd_u64();
                    if (rq_registered) {
                        rq_provided = true;
                        VASSERT(rq_nvals < 6, "harness capacity: answers");
                        rq_vals[rq_nvals++] = value;
                    }
                    VASSERT(ubase_check(urequest_provide_sink_latency(lodged[0], value)), "answer accepted");
                }
                break;
            case 15:
                (void)run_cb(4);
                break;
            case 21: case 22: case 23: case 24:
                arm_push = ops[k] - 20;
                break;
            case 26: case 27: case 28: case 29:
                arm_pop = ops[k] - 25;
                break;
            case 16: {      /* C20: setter then getter (symbolic value, getter output pre-loaded with symbolic junk) */
                unsigned int v = nd_u32(), g = nd_u32();
                VASSERT(ubase_check(upipe_set_max_length(QSINK, v)), "set_max_length accepted");
                max_length = v;
                VASSERT(ubase_check(upipe_get_max_length(QSINK, &g)) && g == v, "C20: get_max_length returns the value that was set");
                break;
            }
            case 17: {      /* C20: getters only -- they report what is in force and change nothing (monitors keep running) */
                unsigned int g = nd_u32();
                struct upipe *o = (struct upipe *)&env_probe;      /* junk */
                struct uref *f = NULL;
                VASSERT(ubase_check(upipe_get_max_length(QSINK, &g)) && g == max_length, "C20: get_max_length reports the length in force");
                g = nd_u32();
                VASSERT(ubase_check(upipe_qsrc_get_max_length(QSRC, &g)) && g == LEN, "C20: the queue source reports the length it was created with");
                g = nd_u32();
                VASSERT(ubase_check(upipe_qsrc_get_length(QSRC, &g)) && g <= LEN, "C20: the queue never reports more elements than its length");
                VASSERT(ubase_check(upipe_get_output(QSRC, &o)) && o == &env_sinks[0].upipe, "C20: get_output returns the connected output");
                VASSERT(ubase_check(upipe_get_output(QSINK, &o)) && o == pseudo, "C20: get_output of the queue sink returns its pseudo-output");
                (void)upipe_get_flow_def(QSRC, &f);
                break;
            }
            default:
                (void)run_cb(ops[k] - 6);
                break;
        }
        qsrc_dead = env_count(QSRC, UPROBE_DEAD) != 0;
    }
#ifdef WITNESS
    VASSUME(delivered >= WITNESS_DELIVERED);
#endif
    VWITNESS();
    /* an answer given while the request was (and still is) registered reaches the requester once the loops ran */
    if (rq_registered && rq_provided && !qsink_released) {
        for (int s = 0; s < SETTLE; s++)
            if (!(run_cb(4) || run_cb(2) || run_cb(1) || run_cb(3)))
                break;
        VASSERT(rq_answers >= 1, "C12: the answer of the provider behind the queue reaches the original requester");
    }
    if (rq_registered && !qsink_released) {
        oob_room();
        VASSERT(ubase_check(upipe_unregister_request(QSINK, &RQ)), "request withdrawn from the queue sink");
        rq_registered = false;
    }
    /* teardown: both handles go, the loops run until nothing is ready */
    oob_room();
    if (!qsink_released)
        upipe_release(QSINK);
    oob_room();
    if (!qsrc_released)
        upipe_release(QSRC);
    for (int s = 0; s < SETTLE; s++) {
        if (!(run_cb(3) || run_cb(1) || run_cb(2) || run_cb(4)))
            break;
        qsrc_dead = env_count(QSRC, UPROBE_DEAD) != 0;
    }
    VASSERT(!ready(find_pump(upipe_qsrc_worker)) && !ready(find_pump(upipe_qsrc_oob)) && !ready(find_pump(upipe_qsink_watcher)) &&
            !ready(find_pump(upipe_qsink_oob)), "harness: loops ran until quiescence (SETTLE bound)");
    if (!flushed)
        VASSERT(delivered == n_sent, "C06: a full queue holds and later delivers buffers instead of dropping them: everything sent arrived");
    VASSERT(delivered <= n_sent, "C06: no buffer delivered twice");
    VASSERT(env_count(QSRC, UPROBE_SOURCE_END) == 1, "C06: end-of-source is signalled once, after the sink went away");
    VASSERT(env_count(QSINK, UPROBE_DEAD) == 1 && env_count(QSRC, UPROBE_DEAD) == 1, "C01: both pipes die exactly once when the last reference goes");
    VASSERT(upump_mock_mgr_from_upump_mgr(env_upump_mgr)->live_pumps == 0, "C01: every watcher was freed");
    VASSERT(!env_sinks[0].dead && uatomic_load(&env_sinks[0].refcount.refcount) == 1, "C01: the queue source returned every reference on its output");
    VASSERT(nlodged == 0, "C12: nothing stays lodged with the provider once the request was withdrawn and the pipes are gone");
    urequest_clean(&RQ);
    VASSERT(!env_sinks[1].dead && uatomic_load(&env_sinks[1].refcount.refcount) == 1, "C01: the queue sink returned exactly the references it took on its pseudo-output");
    env_sinks_done();
    upump_mgr_release(env_upump_mgr);
    env_done();
    return 0;
}
