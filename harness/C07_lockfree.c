/* C07: lock-free FIFO, LIFO and pool are linearizable under any interleaving.
 * Code under test: uring.h, ulifo.h, ufifo.h, upool.h over the real uatomic.h, compiled by clang to LLVM IR
 * and translated by vlib/seqz.py into resumable C: every access to shared memory (each atomic operation and
 * each unsynchronised access to uring_elem.tag / next / opaque) is a scheduling point.  The fields of struct
 * uring (length, elems), written once before the threads start, are treated as constants.
 * KIND: 0 LIFO, 1 FIFO, 2 POOL.  Thread t runs PROGt: 'P' push (a fresh non-NULL element), 'O' pop;
 * for the pool 'A' alloc, 'F' free of the object allocated last by this thread.
 * Oracle (LIFO/FIFO): invocation / response step numbers and results of all operations are recorded; the
 * history must have a linearization: some total order of the operations, consistent with real-time order
 * and program order, that is legal for the sequential stack / queue of capacity CAP: a pop returns the
 * top / oldest element, returns NULL only when empty; a push fails only when full -- or, as the property
 * allows, when a slot was held by an operation in progress at the same time.  The existential over orders
 * is a disjunction over a static table of permutations (<= 24), decided by the solver.
 * Oracle (POOL): an object is never handed to a second holder while the first still holds it; objects come
 * only from the allocation callback or from an earlier free; the free callback only gets objects that were
 * allocated. */
#include "nd.h"
#include "upipe/ubase.h"
#include "upipe/uatomic.h"
#include "upipe/urefcount.h"
#include "upipe/uring.h"
#include "upipe/ulifo.h"
#include "upipe/ufifo.h"
#include "upipe/upool.h"

#define VERIF_SEQZ_ASSERT_FAIL() VASSERT(0, "an assert() of the code under test failed")
#define VERIF_SEQZ_BAD_PC() VASSERT(0, "sequentializer: bad pc")
#define VERIF_SEQZ_UNREACHABLE() VASSERT(0, "sequentializer: unreachable executed")
static char *pool_alloc_cb(char *upool);
static void pool_free_cb(char *upool, char *obj);
#define VERIF_SEQZ_ICALLV1(fn, a) pool_alloc_cb(a)
#define VERIF_SEQZ_ICALL2(fn, a, b) pool_free_cb(a, b)
#define VERIF_SEQZ_ICALL1(fn, a) VASSERT(0, "no single-argument callback in this harness")
#include "seqz_gen.c"

#ifndef KIND
#define KIND 0
#endif
#ifndef CAP
#define CAP 1
#endif
#ifndef NT
#define NT 2
#endif
#ifndef ROUNDS
#define ROUNDS 4
#endif
#ifndef BUDGET
#define BUDGET 24
#endif
#ifndef INIT_N
#define INIT_N 0        /* elements stored before the threads start */
#endif
#ifndef AGE
#define AGE 0           /* initial value of every slot's tag: 0xffff / 0xfe make the tag wrap inside the bound */
#endif
#define MAXOPS 3
static const char *const prog[3] = { PROG0, PROG1,
#ifdef PROG2
    PROG2
#else
    ""
#endif
};
static int plen[3], cur[3];
static bool in_op[3];
static unsigned now;            /* global step counter */

struct rec { unsigned inv, resp; bool push; bool ok; int val; bool done; };
static struct rec R[3][MAXOPS];

static struct uring_elem extra[CAP + 1];
#if KIND == 0
static struct ulifo S;
#define FPUSH struct F_w_ulifo_push
#define FPOP struct F_w_ulifo_pop
#define SPUSH S_w_ulifo_push
#define SPOP S_w_ulifo_pop
#elif KIND == 1
static struct ufifo S;
#define FPUSH struct F_w_ufifo_push
#define FPOP struct F_w_ufifo_pop
#define SPUSH S_w_ufifo_push
#define SPOP S_w_ufifo_pop
#else
static struct upool S;
static struct urefcount pool_rc;
#define FPUSH struct F_w_upool_free
#define FPOP struct F_w_upool_alloc
#define SPUSH S_w_upool_free
#define SPOP S_w_upool_alloc
/* pool bookkeeping */
#define NOBJ 6
static uint64_t objs[NOBJ];
static int holder[NOBJ];        /* -1 free / never allocated, -2 inside the pool, t >= 0 held by thread t */
static int next_obj;
static int last_alloc[3] = { -1, -1, -1 };
static char *pool_alloc_cb(char *upool)
{
    VASSERT(upool == (char *)&S, "allocation callback gets its pool");
    VASSERT(next_obj < NOBJ, "harness capacity: objects");
    return (char *)&objs[next_obj++];
}
static void pool_free_cb(char *upool, char *obj)
{
    VASSERT(upool == (char *)&S, "free callback gets its pool");
    int i = (int)((uint64_t *)obj - objs);
    VASSERT(i >= 0 && i < next_obj, "free callback gets an object that came from the allocation callback");
    VASSERT(holder[i] == -3, "free callback gets an object that is being freed (not one that is held or pooled)");
    holder[i] = -1;
}
#endif
#if KIND != 2
static char *pool_alloc_cb(char *upool) { (void)upool; VASSERT(0, "no pool in this harness"); return 0; }
static void pool_free_cb(char *upool, char *obj) { (void)upool; (void)obj; VASSERT(0, "no pool in this harness"); }
#endif

/* one branch per (thread, operation index): the operation kind is then a constant in each branch and only the
 * relevant translated function is explored */
#define OP_SLICE(T, K)                                                                      \
    {                                                                                       \
        const char op = prog[T][K];                                                         \
        const bool is_push = (op == 'P' || op == 'F');                                      \
        bool fin;                                                                           \
        if (!in_op[T]) {                                                                    \
            in_op[T] = true;                                                                \
            R[T][K].inv = now;                                                              \
            R[T][K].push = is_push;                                                         \
            R[T][K].val = 10 * (T + 1) + K;                                                 \
            fp_##T.pc = 0; fp_##T.prev = -1; fp_##T.v_0 = (char *)&S;                       \
            fo_##T.pc = 0; fo_##T.prev = -1; fo_##T.v_0 = (char *)&S;                       \
            begin_op(T, K, is_push, &fp_##T.v_1);                                           \
        }                                                                                   \
        fp_##T.budget = budget; fo_##T.budget = budget;                                     \
        if (is_push)                                                                        \
            fin = SPUSH(&fp_##T);                                                           \
        else                                                                                \
            fin = SPOP(&fo_##T);                                                            \
        if (fin) {                                                                          \
            R[T][K].resp = now;                                                             \
            R[T][K].done = true;                                                            \
            end_op(T, K, is_push, is_push ? PUSH_RET(fp_##T) : (uint64_t)(uintptr_t)fo_##T.ret); \
            in_op[T] = false;                                                               \
            cur[T] = K + 1;                                                                 \
        }                                                                                   \
    }
#define DEFINE_THREAD(T)                                                                    \
static FPUSH fp_##T; static FPOP fo_##T;                                                    \
static void step_##T(int budget)                                                           \
{                                                                                           \
    if (cur[T] == 0) OP_SLICE(T, 0)                                                         \
    else if (cur[T] == 1) OP_SLICE(T, 1)                                                    \
    else OP_SLICE(T, 2)                                                                     \
}

#if KIND == 2
#define PUSH_RET(f) 1
static void begin_op(int t, int k, bool is_free, char **arg)
{
    (void)k;
    if (is_free) {
        int i = last_alloc[t];
        VASSERT(i >= 0 && holder[i] == t, "harness: thread frees an object it holds");
        holder[i] = -3;             /* given up by its holder, on its way to the pool or to the free callback */
        *arg = (char *)&objs[i];
    }
}
static void end_op(int t, int k, bool is_free, uint64_t ret)
{
    (void)k;
    if (is_free) {
        int i = last_alloc[t];
        if (holder[i] == -3)
            holder[i] = -2;         /* kept by the pool */
        last_alloc[t] = -1;
        return;
    }
    VASSERT(ret != 0, "alloc returns an object (allocation failure is out of scope)");
    int i = (int)((uint64_t *)(uintptr_t)ret - objs);
    VASSERT(i >= 0 && i < next_obj, "alloc returns an object of this pool");
    VASSERT(holder[i] == -1 || holder[i] == -2, "an object obtained from the pool is never handed to two holders at once");
    holder[i] = t;
    last_alloc[t] = i;
}
#else
#define PUSH_RET(f) ((f).ret != 0)
static void begin_op(int t, int k, bool is_push, char **arg)
{
    if (is_push)
        *arg = (char *)(uintptr_t)(10 * (t + 1) + k);       /* a unique non-NULL opaque */
}
static void end_op(int t, int k, bool is_push, uint64_t ret)
{
    if (is_push)
        R[t][k].ok = ret != 0;
    else {
        R[t][k].ok = ret != 0;
        R[t][k].val = (int)ret;
    }
}
#endif
DEFINE_THREAD(0)
DEFINE_THREAD(1)
#if NT > 2
DEFINE_THREAD(2)
#endif

#if KIND != 2
/* ---- linearizability: search over the permutation table supplied by the driver ---- */
#ifndef NOPS
#error "NOPS (total number of operations) and PERMS must be given by the driver"
#endif
static const int perms[][NOPS] = { PERMS };
static const int op_thread[NOPS] = { OP_THREAD };       /* flat index -> thread */
static const int op_index[NOPS] = { OP_INDEX };         /* flat index -> index in the thread's program */

static bool overlaps_someone(int a)
{
    const struct rec *ra = &R[op_thread[a]][op_index[a]];
    for (int b = 0; b < NOPS; b++) {
        if (b == a)
            continue;
        const struct rec *rb = &R[op_thread[b]][op_index[b]];
        if (rb->inv <= ra->resp && ra->inv <= rb->resp)
            return true;
    }
    return false;
}
static bool legal(const int *p)
{
    /* real-time and program order */
    for (int i = 0; i < NOPS; i++)
        for (int j = i + 1; j < NOPS; j++) {
            const struct rec *a = &R[op_thread[p[i]]][op_index[p[i]]], *b = &R[op_thread[p[j]]][op_index[p[j]]];
            if (b->resp < a->inv)
                return false;       /* b finished before a started, yet a is ordered first */
        }
    int q[CAP + INIT_N + 1], n = 0;
    for (int i = 0; i < INIT_N; i++)
        q[n++] = 100 + i;
    for (int i = 0; i < NOPS; i++) {
        const struct rec *a = &R[op_thread[p[i]]][op_index[p[i]]];
        if (a->push) {
            if (a->ok) {
                if (n >= CAP)
                    return false;
                q[n++] = a->val;
            } else if (n < CAP && !overlaps_someone(p[i]))
                return false;       /* refused although not full and nothing else was running */
        } else {
            if (!a->ok) {
                if (n != 0)
                    return false;   /* returned nothing although not empty */
            } else {
                if (n == 0)
                    return false;
#if KIND == 0
                if (q[n - 1] != a->val)
                    return false;
                n--;
#else
                if (q[0] != a->val)
                    return false;
                for (int k = 1; k < n; k++)
                    q[k - 1] = q[k];
                n--;
#endif
            }
        }
    }
    return true;
}
#endif

#define RUN_THREAD(T) if (cur[T] < plen[T]) { now++; step_##T((int)nd_range(0, BUDGET)); }

int main(void)
{
    for (int t = 0; t < NT; t++) {
        int n = 0;
        while (prog[t][n])
            n++;
        plen[t] = n;
    }
#if KIND == 0
    ulifo_init(&S, CAP, extra);
#elif KIND == 1
    ufifo_init(&S, CAP, extra);
#else
    urefcount_init(&pool_rc, NULL);
    upool_init(&S, &pool_rc, CAP, extra, (upool_alloc_cb)pool_alloc_cb, (upool_free_cb)pool_free_cb);
    for (int i = 0; i < NOBJ; i++)
        holder[i] = -1;
#endif
#if AGE
    for (int i = 0; i < CAP; i++)
        extra[i].tag = (uint16_t)AGE;
#endif
#if KIND != 2
    for (int i = 0; i < INIT_N; i++) {
#if KIND == 0
        bool ok = ulifo_push(&S, (void *)(uintptr_t)(100 + i));
#else
        bool ok = ufifo_push(&S, (void *)(uintptr_t)(100 + i));
#endif
        VASSERT(ok, "harness: initial elements stored");
    }
#endif
    /* context-bounded schedule: ROUNDS rounds; in every round each thread, in turn, executes a symbolic number
     * (0..BUDGET) of shared-memory accesses of its current operation (a slice ends with the operation at the
     * latest).  Every schedule in which no thread is preempted more than ROUNDS times is covered; the solver
     * picks the slice lengths. */
    for (int r = 0; r < ROUNDS; r++) {
        RUN_THREAD(0)
        RUN_THREAD(1)
#if NT > 2
        RUN_THREAD(2)
#endif
    }
    {
        bool all = true;
        for (int t = 0; t < NT; t++)
            all = all && cur[t] == plen[t];
        VASSUME(all);       /* schedules that do not complete within the round bound are outside the bound (see witness twin) */
    }
#if KIND != 2
    bool lin = false;
    for (unsigned p = 0; p < sizeof(perms) / sizeof(perms[0]); p++)
        lin = lin || legal(perms[p]);
    VASSERT(lin, "the history of this schedule is linearizable w.r.t. the sequential stack / queue");
#endif
    VWITNESS();
    return 0;
}
