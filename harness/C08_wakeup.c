/* C08: event-driven waiting never loses a wakeup; the dealer grants exclusively.
 * Code under test (translated from LLVM IR by vlib/seqz.py): uqueue_push / uqueue_pop (uqueue.h: double check around
 * the event descriptors, counter-driven wake-ups) and udeal_grab / udeal_yield / waiters accounting (udeal.h), with
 * the real uatomic.h.  Cut points modelled atomically by this harness (see conc_units.c): the FIFO itself (C07), the
 * event descriptors (eventfd(2): a counter; read resets it, write adds 1; "readable" iff counter > 0) and the event
 * loop (a thread that went back to its loop runs again only while its descriptor is readable -- level triggered).
 * MODE 0 -- queue: NPROD producers push NEL elements each, NCONS consumers pop until everything was received.
 *   A producer whose push fails returns to its event loop and waits for event_push; a consumer that gets nothing
 *   waits for event_pop.  Asserted after every slice: 0 <= counter <= length, stored elements <= length, and NO LOST
 *   WAKEUP: it is never the case that work remains while every unfinished thread sleeps on a non-readable descriptor.
 * MODE 1 -- dealer: NT contenders each start, grab when notified, hold, yield.  Asserted: at most one holder at a
 *   time; when the holder yields and contenders remain, they are not all left sleeping on a non-readable event. */
#include "nd.h"
#include "upipe/ubase.h"
#include "upipe/uatomic.h"
#include "upipe/ufifo.h"
#include "upipe/ueventfd.h"
#include "upipe/upump.h"
#include "upipe/uqueue.h"
#include "upipe/udeal.h"

#define VERIF_SEQZ_ASSERT_FAIL() VASSERT(0, "an assert() of the code under test failed")
#define VERIF_SEQZ_BAD_PC() VASSERT(0, "sequentializer: bad pc")
#define VERIF_SEQZ_UNREACHABLE() VASSERT(0, "sequentializer: unreachable executed")
#define VERIF_SEQZ_ICALL1(fn, a) VASSERT(0, "no callback expected")
static uint8_t ext_fifo_push(char *fifo, char *element);
static char *ext_fifo_pop(char *fifo);
static uint8_t ext_ev_read(char *fd);
static uint8_t ext_ev_write(char *fd);
static void ext_upump_stop(char *upump);
#include "seqz_gen.c"

#ifndef MODE
#define MODE 0
#endif
#ifndef LEN
#define LEN 1
#endif
#ifndef NEL
#define NEL 2
#endif
#ifndef ROUNDS
#define ROUNDS 6
#endif
#ifndef BUDGET
#define BUDGET 8
#endif
#ifndef NT
#define NT 2
#endif

/* ---- environment models ---- */
static struct uqueue Q;
static struct udeal D;
static unsigned ev_count[3];                /* 0: event_push, 1: event_pop, 2: dealer event */
static char *fifo_q[LEN + 1];
static unsigned fifo_n;
static int ev_index(char *fd)
{
    if (fd == (char *)&Q.event_push) return 0;
    if (fd == (char *)&Q.event_pop) return 1;
    VASSERT(fd == (char *)&D.event, "event descriptor is one of the three known ones");
    return 2;
}
static uint8_t ext_ev_read(char *fd) { ev_count[ev_index(fd)] = 0; return 1; }
static uint8_t ext_ev_write(char *fd) { ev_count[ev_index(fd)]++; return 1; }
static void ext_upump_stop(char *upump) { (void)upump; }
static uint8_t ext_fifo_push(char *fifo, char *element)
{
    VASSERT(fifo == (char *)&Q.fifo, "queue uses its own fifo");
    if (fifo_n >= LEN)
        return 0;
    fifo_q[fifo_n++] = element;
    return 1;
}
static char *ext_fifo_pop(char *fifo)
{
    VASSERT(fifo == (char *)&Q.fifo, "queue uses its own fifo");
    if (fifo_n == 0)
        return 0;
    char *e = fifo_q[0];
    for (unsigned i = 1; i < fifo_n; i++)
        fifo_q[i - 1] = fifo_q[i];
    fifo_n--;
    return e;
}

enum st { ST_READY, ST_IN_OP, ST_WAIT, ST_DONE, ST_HOLD };
static enum st state[4];
static unsigned received, sent_ok, next_expected = 1;

#if MODE == 0
/* thread 0 = producer, thread 1 = consumer (thread 2 = second consumer or producer if ROLE2 is set) */
static struct F_w_uqueue_push fpush[4];
static struct F_w_uqueue_pop fpop[4];
static unsigned todo[4];            /* producer: elements still to push; consumer: unused */
static bool is_prod[4];
#define TOTAL (NEL * NPROD)

static bool enabled(int t)
{
    if (state[t] == ST_DONE)
        return false;
    if (state[t] == ST_IN_OP)
        return true;
    if (!is_prod[t])            /* a consumer is a level-triggered watcher on event_pop: after ANY pop (successful or not)
                                 * it is back in its event loop and runs again only while the descriptor is readable */
        return ev_count[1] > 0;
    if (state[t] == ST_WAIT)    /* a producer whose push failed waits for event_push; otherwise it pushes when it has data */
        return ev_count[0] > 0;
    return true;
}
#define SLICE(T)                                                                        \
    if (enabled(T)) {                                                                   \
        int budget = (int)nd_range(0, BUDGET);                                          \
        if (state[T] != ST_IN_OP) {                                                     \
            state[T] = ST_IN_OP;                                                        \
            if (is_prod[T]) {                                                           \
                fpush[T].pc = 0; fpush[T].prev = -1; fpush[T].v_0 = (char *)&Q;         \
                fpush[T].v_1 = (char *)(uintptr_t)(sent_ok + 1 + 100 * T);             \
            } else {                                                                    \
                fpop[T].pc = 0; fpop[T].prev = -1; fpop[T].v_0 = (char *)&Q;            \
            }                                                                           \
        }                                                                               \
        if (is_prod[T]) {                                                               \
            fpush[T].budget = budget;                                                   \
            if (S_w_uqueue_push(&fpush[T])) {                                           \
                if (fpush[T].ret) {                                                     \
                    todo[T]--;                                                          \
                    state[T] = todo[T] ? ST_READY : ST_DONE;                            \
                } else                                                                  \
                    state[T] = ST_WAIT;     /* back to the event loop, waiting for event_push */ \
            }                                                                           \
        } else {                                                                        \
            fpop[T].budget = budget;                                                    \
            if (S_w_uqueue_pop(&fpop[T])) {                                             \
                if (fpop[T].ret != 0) {                                                 \
                    received++;                                                         \
                    state[T] = ST_READY;                                                \
                } else                                                                  \
                    state[T] = ST_WAIT;     /* back to the event loop, waiting for event_pop */ \
            }                                                                           \
        }                                                                               \
        check_queue();                                                                  \
    }

static void check_queue(void)
{
    uint32_t c = uatomic_load(&Q.counter);
    VASSERT(fifo_n <= LEN, "the queue never holds more than its configured length");
    (void)c;    /* the counter may transiently read length+k or wrap below 0 (an element popped before its push was
                 * counted): observed, not part of the property; what matters is that no wake-up is lost because of it */
    /* consumers are done when everything was received */
    if (received == TOTAL)
        for (int t = 0; t < NT; t++)
            if (!is_prod[t])
                state[t] = ST_DONE;
    bool work = false, someone = false;
    for (int t = 0; t < NT; t++)
        if (state[t] != ST_DONE) {
            work = true;
            someone = someone || enabled(t);
        }
    VASSERT(!work || someone, "no lost wakeup: producers and consumers are never all asleep while work remains");
}
#else
static struct F_w_udeal_grab fgrab[3];
static struct F_w_udeal_yield fyield[3];
static struct F_w_udeal_start_count fstart[3];
static int phase[3];            /* 0 start, 1 wait for notification, 2 grabbing, 3 holding, 4 yielding, 5 done */
static unsigned holders;
static bool enabled(int t)
{
    if (phase[t] == 5)
        return false;
    if (phase[t] == 1)
        return ev_count[2] > 0;
    return true;
}
static void check_deal(void)
{
    VASSERT(holders <= 1, "the dealer admits at most one holder at a time");
    bool work = false, someone = false;
    for (int t = 0; t < NT; t++)
        if (phase[t] != 5) {
            work = true;
            someone = someone || enabled(t);
        }
    VASSERT(!work || someone, "when the holder yields, remaining waiters are notified: never everybody asleep while contenders remain");
}
#define SLICE(T)                                                                        \
    if (enabled(T)) {                                                                   \
        int budget = (int)nd_range(0, BUDGET);                                          \
        switch (phase[T]) {                                                             \
            case 0:                                                                     \
                if (fstart[T].pc == -2) { fstart[T].pc = 0; fstart[T].prev = -1; fstart[T].v_0 = (char *)&D; } \
                fstart[T].budget = budget;                                              \
                if (S_w_udeal_start_count(&fstart[T]))                                  \
                    phase[T] = fstart[T].ret == 0 ? 2 : 1;  /* first waiter: the callback runs at once */ \
                if (phase[T] == 2) { fgrab[T].pc = 0; fgrab[T].prev = -1; fgrab[T].v_0 = (char *)&D; } \
                break;                                                                  \
            case 1:             /* notified: the pump callback tries to grab */         \
                phase[T] = 2;                                                           \
                fgrab[T].pc = 0; fgrab[T].prev = -1; fgrab[T].v_0 = (char *)&D;         \
                /* fall through */                                                      \
            case 2:                                                                     \
                fgrab[T].budget = budget;                                               \
                if (S_w_udeal_grab(&fgrab[T])) {                                        \
                    if (fgrab[T].ret) { phase[T] = 3; holders++; }                      \
                    else phase[T] = 1;                                                  \
                }                                                                       \
                break;                                                                  \
            case 3:             /* use the resource, then yield */                      \
                holders--;                                                              \
                phase[T] = 4;                                                           \
                fyield[T].pc = 0; fyield[T].prev = -1; fyield[T].v_0 = (char *)&D; fyield[T].v_1 = 0; \
                break;                                                                  \
            case 4:                                                                     \
                fyield[T].budget = budget;                                              \
                if (S_w_udeal_yield(&fyield[T]))                                        \
                    phase[T] = 5;                                                       \
                break;                                                                  \
            default: break;                                                             \
        }                                                                               \
        check_deal();                                                                   \
    }
#endif

int main(void)
{
#if MODE == 0
    /* the state uqueue_init() establishes: event_push readable, event_pop not, counter 0 */
    uatomic_init(&Q.counter, 0);
    Q.length = LEN;
    ev_count[0] = 1;
    ev_count[1] = 0;
    for (int t = 0; t < NT; t++) {
        is_prod[t] = t < NPROD;
        todo[t] = NEL;
        state[t] = ST_READY;
    }
#else
    uatomic_init(&D.waiters, 0);
    uatomic_init(&D.access, 0);
    ev_count[2] = 1;            /* udeal_init: event initially readable */
    for (int t = 0; t < NT; t++)
        fstart[t].pc = -2;
#endif
    for (int r = 0; r < ROUNDS; r++) {
        SLICE(0)
        SLICE(1)
#if NT > 2
        SLICE(2)
#endif
#if NT > 3
        SLICE(3)
#endif
    }
#ifdef WITNESS
#if MODE == 0
    VASSUME(received == TOTAL);
#else
    VASSUME(phase[0] == 5 && phase[1] == 5);
#endif
#endif
    VWITNESS();
    return 0;
}
