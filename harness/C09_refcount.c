/* C09: a reference count runs its destructor exactly once, even under races.
 * Code under test: urefcount_use / urefcount_release (urefcount.h) and ubuf_mem_shared_use / release
 * (ubuf_mem_common.h) over uatomic.h, compiled by clang from the REAL headers and translated into resumable
 * C by vlib/seqz.py (seqz_gen.c): every shared-memory access (atomic or plain, incl. the plain read and
 * clearing of urefcount.cb) is a scheduling point.  The schedule is a symbolic sequence of thread ids.
 * T threads; thread t runs the program PROG_t, a list of 'u' (use) and 'r' (release) that is LEGITIMATE:
 * it never holds a negative number of references, starts with one reference handed to it by the creator
 * (so the count starts at T), and ends holding none.
 * Oracle: the destructor runs exactly once; when it runs every other thread has completed its whole
 * program (so no reference is outstanding and nobody touches the object afterwards); for the shared
 * memory area exactly one release returns true, and it is the last one to complete its decrement. */
#include "nd.h"
#include "upipe/ubase.h"
#include "upipe/uatomic.h"
#include "upipe/urefcount.h"
#include "upipe/upool.h"
#include "upipe/ubuf_mem_common.h"

#define VERIF_SEQZ_ASSERT_FAIL() VASSERT(0, "an assert() of the code under test failed")
#define VERIF_SEQZ_BAD_PC() VASSERT(0, "sequentializer: bad pc")
#define VERIF_SEQZ_UNREACHABLE() VASSERT(0, "sequentializer: unreachable executed")
static void dtor(struct urefcount *r);
#define VERIF_SEQZ_ICALL1(fn, a) do { VASSERT((fn) == (char *)dtor, "callback pointer is the installed destructor"); dtor((struct urefcount *)(a)); } while (0)
#include "seqz_gen.c"

#ifndef NT
#define NT 2
#endif
#ifndef ROUNDS
#define ROUNDS 4
#endif
#ifndef BUDGET
#define BUDGET 8
#endif
static const char *const prog[3] = { PROG0, PROG1,
#ifdef PROG2
    PROG2
#else
    ""
#endif
};

static struct urefcount rc;
static struct ubuf_mem_shared shared;
static unsigned dtor_calls, true_releases;
static int cur[3];              /* index of the operation the thread is executing / will execute */
static bool in_op[3];
static int running = -1;        /* thread executing the current step */
static int plen[3];

static void dtor(struct urefcount *r)
{
    VASSERT(r == &rc, "destructor called with its own object");
    dtor_calls++;
    VASSERT(dtor_calls == 1, "the destructor runs at most once");
    for (int t = 0; t < NT; t++)
        if (t != running)
            VASSERT(!in_op[t] && cur[t] == plen[t],
                    "the destructor runs only after every other holder has completed its last release (no reference outstanding)");
    VASSERT(cur[running] == plen[running] - 1, "the destructor runs in the final release of the last holder");
}

/* One step function per thread, on its own frames: indexing the frames with a symbolic thread id would make
 * every SSA assignment of the translated code a write at a symbolic array index (measured: 14 GB, no verdict). */
#ifdef SHARED
#define FU struct F_w_shared_use
#define FR struct F_w_shared_release
#define SU S_w_shared_use
#define SR S_w_shared_release
#define OBJ ((char *)&shared)
#else
#define FU struct F_w_urefcount_use
#define FR struct F_w_urefcount_release
#define SU S_w_urefcount_use
#define SR S_w_urefcount_release
#define OBJ ((char *)&rc)
#endif
static void after_release(int t, bool ret)
{
#ifdef SHARED
    if (ret) {
        true_releases++;
        VASSERT(true_releases == 1, "the memory area is handed back to its allocator at most once");
        for (int o = 0; o < NT; o++)
            if (o != t)
                VASSERT(!in_op[o] && cur[o] == plen[o], "the area is returned only by whichever holder lets go last");
        VASSERT(cur[t] == plen[t] - 1, "the area is returned by a holder's final release");
    }
#else
    (void)t; (void)ret;
#endif
}
#ifdef SHARED
#define RELEASE_RET(f) ((f).ret != 0)
#else
#define RELEASE_RET(f) false
#endif
#define DEFINE_THREAD(T)                                                            \
static FU fu_##T; static FR fr_##T;                                                 \
static void step_##T(int budget)                                                          \
{                                                                                   \
    char op = prog[T][cur[T]];                                                      \
    bool fin;                                                                       \
    if (!in_op[T]) {                                                                \
        in_op[T] = true;                                                            \
        fu_##T.pc = 0; fu_##T.prev = -1; fu_##T.v_0 = OBJ;                          \
        fr_##T.pc = 0; fr_##T.prev = -1; fr_##T.v_0 = OBJ;                          \
    }                                                                               \
    running = T;                                                                    \
    fu_##T.budget = budget; fr_##T.budget = budget;                                           \
    if (op == 'u')                                                                  \
        fin = SU(&fu_##T);                                                          \
    else {                                                                          \
        fin = SR(&fr_##T);                                                          \
        if (fin)                                                                    \
            after_release(T, RELEASE_RET(fr_##T));                                  \
    }                                                                               \
    running = -1;                                                                   \
    if (fin) {                                                                      \
        in_op[T] = false;                                                           \
        cur[T]++;                                                                   \
    }                                                                               \
}
DEFINE_THREAD(0)
DEFINE_THREAD(1)
#if NT > 2
DEFINE_THREAD(2)
#endif
static unsigned now;
#define RUN_THREAD(T) if (cur[T] < plen[T]) { now++; step_##T((int)nd_range(0, BUDGET)); }

int main(void)
{
    for (int t = 0; t < NT; t++) {
        int n = 0;
        while (prog[t][n])
            n++;
        plen[t] = n;
    }
#ifdef SHARED
    uatomic_init(&shared.refcount, NT);
#else
    urefcount_init(&rc, dtor);
    for (int t = 1; t < NT; t++)
        urefcount_use(&rc);         /* the creator hands one reference to every thread */
#endif
    /* context-bounded schedule: ROUNDS rounds; in every round each thread, in turn, executes a symbolic number
     * (0..BUDGET) of shared-memory accesses of its current operation (a slice ends with the operation at the
     * latest).  Every schedule in which no thread is preempted more than ROUNDS times is covered; the solver
     * picks the slice lengths. */
    for (int r = 0; r < ROUNDS; r++) {
        RUN_THREAD(0)
        RUN_THREAD(1)
#if NT > 2
        RUN_THREAD(2)
#endif
    }
    {
        bool all = true;
        for (int t = 0; t < NT; t++)
            all = all && cur[t] == plen[t];
        VASSUME(all);       /* schedules that do not complete within the round bound are outside the bound (see witness twin) */
    }
#ifdef SHARED
    VASSERT(true_releases == 1, "exactly one release reports that the area must be returned");
    VASSERT(uatomic_load(&shared.refcount) == 0, "no reference left");
#else
    VASSERT(dtor_calls == 1, "the destructor ran exactly once");
#endif
    VWITNESS();
    return 0;
}
