/* C10: attribute dictionaries behave as typed key-value maps.
 * Real code: lib/upipe/udict_inline.c (find/next/iterate/get/set/delete/dup/name, shorthands, growth by
 * umem_realloc), include/upipe/udict.h (typed accessors, set_opaque/set_string copy-before-move,
 * import, copy, cmp), umem_alloc.c.
 * Discrete selectors (driver): the ATOMS = op,key,size,... of the history (they fix the TLV layout) and
 * the manager's (min_size, extra_size).  Symbolic in every query: every value (octets, characters,
 * all 64-bit numbers, rationals, booleans), and therefore the outcome of the final udict_cmp.
 * ops: 0 set(key,size)  1 delete(key)  2 dup and continue on the copy  3 import from a second dictionary
 *      4 copy (udict_copy) and continue on the copy  5 set(key) from a pointer INTO the dictionary
 *      (value of key `size` as returned by get: aliasing its own storage)
 * Model: one slot per key (present, size, typed value).  Checked at the end, for the working dictionary
 * and for the frozen original of every dup/copy: every (name, type) lookup returns exactly the value last
 * stored or reports it absent; iteration visits each present attribute exactly once and nothing else;
 * a dictionary rebuilt from the model in another order compares equal; cmp(original, copy) == 0 exactly
 * when the two models are equal. */
#include <string.h>
#include "nd.h"
#include "lib/upipe/umem_alloc.c"
#include "lib/upipe/udict_inline.c"
#include "upipe/udict.h"

#ifndef MIN_SIZE
#define MIN_SIZE -1
#endif
#ifndef STRVAR
#define STRVAR 0
#endif
#ifndef EXTRA_SIZE
#define EXTRA_SIZE -1
#endif

enum kind { K_OPAQUE, K_STRING, K_UNSIGNED, K_VOID, K_SMALL, K_INT, K_RATIONAL, K_BOOL };
struct key { const char *name; enum udict_type type; enum kind kind; };
#define NKEYS 11
static const struct key keys[NKEYS] = {
    { "a", UDICT_TYPE_OPAQUE, K_OPAQUE },       /* 0 */
    { "ab", UDICT_TYPE_OPAQUE, K_OPAQUE },      /* 1: "a" is a prefix of "ab" */
    { "b", UDICT_TYPE_STRING, K_STRING },       /* 2 */
    { "a", UDICT_TYPE_UNSIGNED, K_UNSIGNED },   /* 3: same name as 0, other type */
    { NULL, UDICT_TYPE_FLOW_DEF, K_STRING },    /* 4: shorthand, string */
    { NULL, UDICT_TYPE_FLOW_ID, K_UNSIGNED },   /* 5: shorthand, unsigned */
    { "v", UDICT_TYPE_VOID, K_VOID },           /* 6 */
    { "s", UDICT_TYPE_SMALL_UNSIGNED, K_SMALL },/* 7 */
    { "i", UDICT_TYPE_INT, K_INT },             /* 8 */
    { "r", UDICT_TYPE_RATIONAL, K_RATIONAL },   /* 9 */
    { "o", UDICT_TYPE_BOOL, K_BOOL },           /* 10 */
};
struct mval { bool present; int size; uint8_t b[4]; uint64_t u; int64_t i; struct urational r; bool o; uint8_t s; };
struct mdl { struct mval v[NKEYS]; };

static struct umem_mgr *umem_mgr;
static struct udict_mgr *mgr;

static void set_model(struct udict *d, struct mdl *m, int k, const struct mval *val)
{
    const struct key *key = &keys[k];
    int err = UBASE_ERR_INVALID;
    switch (key->kind) {
        case K_OPAQUE: {
            struct udict_opaque o;
            o.v = val->b;
            o.size = (size_t)val->size;
            err = udict_set_opaque(d, o, key->type, key->name);
            break;
        }
        case K_STRING: err = udict_set_string(d, (const char *)val->b, key->type, key->name); break;
        case K_UNSIGNED: err = udict_set_unsigned(d, val->u, key->type, key->name); break;
        case K_VOID: err = udict_set_void(d, NULL, key->type, key->name); break;
        case K_SMALL: err = udict_set_small_unsigned(d, val->s, key->type, key->name); break;
        case K_INT: err = udict_set_int(d, val->i, key->type, key->name); break;
        case K_RATIONAL: err = udict_set_rational(d, val->r, key->type, key->name); break;
        default: err = udict_set_bool(d, val->o, key->type, key->name); break;
    }
    VASSERT(ubase_check(err), "set succeeds");
    m->v[k] = *val;
    m->v[k].present = true;
}
static void sym_val(int k, int size, struct mval *val)
{
    memset(val, 0, sizeof(*val));
    val->size = size;
    switch (keys[k].kind) {
        case K_OPAQUE:
            for (int i = 0; i < size; i++)
                val->b[i] = nd_u8();
            break;
        case K_STRING: {
            /* characters are concrete: with symbolic ones strlen() -- hence the size of the stored value and the
             * whole TLV layout -- is symbolic for symex and the query does not finish (measured: > 250 s vs 4 s).
             * `size` selects the length; STRVAR (driver) selects between two different contents. */
            static const char alt[2][4] = { "xyz", "qrs" };
            for (int i = 0; i < size; i++)
                val->b[i] = (uint8_t)alt[(STRVAR + k) & 1][i];
            val->b[size] = 0;
            break;
        }
        case K_UNSIGNED: val->u = nd_u64(); break;
        case K_SMALL: val->s = nd_u8(); break;
        case K_INT:
            val->i = nd_i64();
            VASSUME(val->i != INT64_MIN);       /* asserted precondition of the sign-magnitude codec */
            break;
        case K_RATIONAL:
            val->r.num = nd_i64();
            val->r.den = nd_u64();
            VASSUME(val->r.num != INT64_MIN);
            break;
        case K_BOOL: val->o = nd_bool(); break;
        default: break;
    }
}
static bool val_eq(int k, const struct mval *a, const struct mval *b)
{
    if (a->present != b->present)
        return false;
    if (!a->present)
        return true;
    switch (keys[k].kind) {
        case K_OPAQUE: case K_STRING:
            if (a->size != b->size)
                return false;
            for (int i = 0; i < a->size; i++)
                if (a->b[i] != b->b[i])
                    return false;
            return true;
        case K_UNSIGNED: return a->u == b->u;
        case K_SMALL: return a->s == b->s;
        case K_INT: return a->i == b->i;
        case K_RATIONAL: return a->r.num == b->r.num && a->r.den == b->r.den;
        case K_BOOL: return a->o == b->o;
        default: return true;
    }
}
static bool mdl_eq(const struct mdl *a, const struct mdl *b)
{
    for (int k = 0; k < NKEYS; k++)
        if (!val_eq(k, &a->v[k], &b->v[k]))
            return false;
    return true;
}

static void check_lookup(struct udict *d, const struct mdl *m, int k)
{
    const struct key *key = &keys[k];
    const struct mval *e = &m->v[k];
    int err;
    switch (key->kind) {
        case K_OPAQUE: {
            struct udict_opaque o;
            o.v = NULL; o.size = 99;
            err = udict_get_opaque(d, &o, key->type, key->name);
            if (e->present) {
                VASSERT(ubase_check(err) && (int)o.size == e->size, "opaque lookup: size last stored");
                for (int i = 0; i < e->size; i++)
                    VASSERT(o.v[i] == e->b[i], "opaque lookup: octets last stored");
            }
            break;
        }
        case K_STRING: {
            const char *s = NULL;
            err = udict_get_string(d, &s, key->type, key->name);
            if (e->present) {
                VASSERT(ubase_check(err) && s != NULL, "string lookup succeeds");
                for (int i = 0; i <= e->size; i++)
                    VASSERT((uint8_t)s[i] == e->b[i], "string lookup: characters last stored");
            }
            break;
        }
        case K_UNSIGNED: {
            uint64_t u = 0;
            err = udict_get_unsigned(d, &u, key->type, key->name);
            if (e->present)
                VASSERT(ubase_check(err) && u == e->u, "unsigned lookup: value last stored");
            break;
        }
        case K_VOID: {
            err = udict_get_void(d, NULL, key->type, key->name);
            if (e->present)
                VASSERT(ubase_check(err), "void lookup: present");
            break;
        }
        case K_SMALL: {
            uint8_t s = 0;
            err = udict_get_small_unsigned(d, &s, key->type, key->name);
            if (e->present)
                VASSERT(ubase_check(err) && s == e->s, "small unsigned lookup: value last stored");
            break;
        }
        case K_INT: {
            int64_t i = 0;
            err = udict_get_int(d, &i, key->type, key->name);
            if (e->present)
                VASSERT(ubase_check(err) && i == e->i, "int lookup: value last stored");
            break;
        }
        case K_RATIONAL: {
            struct urational r = { 0, 0 };
            err = udict_get_rational(d, &r, key->type, key->name);
            if (e->present)
                VASSERT(ubase_check(err) && r.num == e->r.num && r.den == e->r.den, "rational lookup: value last stored");
            break;
        }
        default: {
            bool o = false;
            err = udict_get_bool(d, &o, key->type, key->name);
            if (e->present)
                VASSERT(ubase_check(err) && o == e->o, "bool lookup: value last stored");
            break;
        }
    }
    if (!e->present)
        VASSERT(!ubase_check(err), "an attribute that was deleted or never set is reported absent");
}
static void check_dict(struct udict *d, const struct mdl *m)
{
    for (int k = 0; k < NKEYS; k++)
        check_lookup(d, m, k);
    /* iteration visits each present attribute exactly once and nothing else */
    unsigned visits[NKEYS];
    for (int k = 0; k < NKEYS; k++)
        visits[k] = 0;
    const char *name = NULL;
    enum udict_type type = UDICT_TYPE_END;
    for (int guard = 0; guard <= NKEYS + 1; guard++) {
        VASSERT(ubase_check(udict_iterate(d, &name, &type)), "iterate succeeds");
        if (type == UDICT_TYPE_END)
            break;
        VASSERT(guard <= NKEYS, "iteration terminates");
        int hit = -1;
        for (int k = 0; k < NKEYS; k++)
            if (keys[k].type == type &&
                ((keys[k].name == NULL && name == NULL) || (keys[k].name != NULL && name != NULL && !strcmp(keys[k].name, name))))
                hit = k;
        VASSERT(hit >= 0, "iteration yields only attributes of the alphabet");
        visits[hit]++;
    }
    for (int k = 0; k < NKEYS; k++)
        VASSERT(visits[k] == (m->v[k].present ? 1u : 0u), "iteration visits each present attribute exactly once, absent ones never");
}
static struct udict *rebuild(const struct mdl *m)
{
    struct udict *e = udict_alloc(mgr, 0);
    VASSUME(e != NULL);
    struct mdl scratch;
    memset(&scratch, 0, sizeof(scratch));
    for (int k = NKEYS - 1; k >= 0; k--)
        if (m->v[k].present)
            set_model(e, &scratch, k, &m->v[k]);
    return e;
}

int main(void)
{
    static const int atoms[] = { ATOMS };
    umem_mgr = umem_alloc_mgr_alloc();
    VASSUME(umem_mgr != NULL);
    mgr = udict_inline_mgr_alloc(0, umem_mgr, MIN_SIZE, EXTRA_SIZE);
    VASSUME(mgr != NULL);
    struct urefcount *rc_u = umem_mgr->refcount, *rc_d = mgr->refcount;
    umem_mgr->refcount = NULL;      /* static managers while the harness runs (see blk.h) */
    mgr->refcount = NULL;

    struct udict *d = udict_alloc(mgr, 0);
    VASSUME(d != NULL);
    struct mdl m;
    memset(&m, 0, sizeof(m));
    struct udict *frozen[3];
    struct mdl frozen_m[3];
    int nfrozen = 0;
    /* the dictionary imported by op 3 */
    struct udict *imp = udict_alloc(mgr, 0);
    VASSUME(imp != NULL);
    struct mdl imp_m;
    memset(&imp_m, 0, sizeof(imp_m));
    {
        struct mval v;
        sym_val(1, 1, &v);
        set_model(imp, &imp_m, 1, &v);
        sym_val(5, 0, &v);
        set_model(imp, &imp_m, 5, &v);
    }
    for (unsigned k = 0; k + 2 < sizeof(atoms) / sizeof(atoms[0]); k += 3) {
        int op = atoms[k], key = atoms[k + 1], size = atoms[k + 2];
        switch (op) {
            case 0: {
                struct mval v;
                sym_val(key, size, &v);
                set_model(d, &m, key, &v);
                break;
            }
            case 1: {
                int err = udict_delete(d, keys[key].type, keys[key].name);
                VASSERT(ubase_check(err) == m.v[key].present, "delete succeeds exactly on a present attribute");
                m.v[key].present = false;
                break;
            }
            case 2: case 4: {
                struct udict *c = op == 2 ? udict_dup(d) : udict_copy(mgr, d);
                VASSERT(c != NULL, "dup / copy succeeds");
                VASSERT(nfrozen < 3, "harness capacity: dups");
                frozen[nfrozen] = d;
                frozen_m[nfrozen] = m;
                nfrozen++;
                d = c;
                break;
            }
            case 3:
                VASSERT(ubase_check(udict_import(d, imp)), "import succeeds");
                m.v[1] = imp_m.v[1];
                m.v[5] = imp_m.v[5];
                break;
            default: {
                /* value of key `size` (an opaque or string attribute, present) fetched from the dictionary and
                 * stored under `key` of the same kind: the source pointer aliases the storage being modified */
                VASSUME(m.v[size].present && keys[key].kind == keys[size].kind);
                struct mval v = m.v[size];
                int err;
                if (keys[key].kind == K_OPAQUE) {
                    struct udict_opaque o;
                    VASSERT(ubase_check(udict_get_opaque(d, &o, keys[size].type, keys[size].name)), "harness: source present");
                    err = udict_set_opaque(d, o, keys[key].type, keys[key].name);
                } else {
                    const char *s = NULL;
                    VASSERT(ubase_check(udict_get_string(d, &s, keys[size].type, keys[size].name)), "harness: source present");
                    err = udict_set_string(d, s, keys[key].type, keys[key].name);
                }
                VASSERT(ubase_check(err), "set from own storage succeeds");
                m.v[key] = v;
                break;
            }
        }
    }
    check_dict(d, &m);
    check_dict(imp, &imp_m);
    for (int i = 0; i < nfrozen; i++) {
        check_dict(frozen[i], &frozen_m[i]);        /* a duplicate is independent of its original */
        int c = udict_cmp(frozen[i], d);
        VASSERT((c == 0) == mdl_eq(&frozen_m[i], &m), "comparison reports equality exactly when both hold the same attributes and values");
    }
    struct udict *e = rebuild(&m);
    VASSERT(udict_cmp(d, e) == 0 && udict_cmp(e, d) == 0, "a dictionary holding the same attributes in another order compares equal");
    VWITNESS();
    udict_free(e);
    udict_free(d);
    udict_free(imp);
    for (int i = 0; i < nfrozen; i++)
        udict_free(frozen[i]);
    mgr->refcount = rc_d;
    umem_mgr->refcount = rc_u;
    udict_mgr_release(mgr);
    umem_mgr_release(umem_mgr);
    return 0;
}
