/* C11: timestamp algebra of uref_clock.h, decided on a fully symbolic struct uref.
 * Every state of the 7 fields involved (flags, 3 dates, 3 delays incl. the
 * UINT64_MAX "unset" value) is a valid state, so a single step from an arbitrary
 * state covers histories of any length (inductive step, no invariant needed).
 *
 * MODE_DIFF : the 12 getters (rap/cr/dts/pts x sys/prog/orig) against an independent
 *             reference written as "walk the delay chain between stored and wanted stage".
 * MODE_STEP : arbitrary state + one symbolic operation, per-operation clauses of C11.
 * Full 64-bit width, no narrowing.  Loop-free in the code under test. */
#include <stdlib.h>
#include <string.h>
#include <assert.h>
#include "nd.h"
#include "upipe/ubase.h"
#include "upipe/uref.h"
#include "upipe/uref_clock.h"

/* discrete selectors: concrete when the driver case-splits (DESIGN 2.3b), symbolic otherwise */
#ifdef CDV
#define SEL_DV CDV
#else
#define SEL_DV ((int)nd_range(0, 2))
#endif
#ifdef CW
#define SEL_W CW
#else
#define SEL_W ((int)nd_range(0, 3))
#endif
#ifdef CDT
#define SEL_DT CDT
#else
#define SEL_DT ((int)nd_range(0, 2))
#endif
#ifdef COP
#define SEL_OP COP
#else
#define SEL_OP ((int)nd_range(0, 5))
#endif

/* ---- reference model --------------------------------------------------- */
/* stages: 0 = RAP, 1 = CR, 2 = DTS, 3 = PTS (1..3 are the stored type codes) */
struct snap { bool ok[3][4]; uint64_t v[3][4]; };

static bool ref_get(const struct uref *u, int dv, int want, uint64_t *out)
{
    static const int shift[3] = { 58, 60, 62 };
    uint64_t date = dv == 0 ? u->date_sys : dv == 1 ? u->date_prog : u->date_orig;
    int stored = (int)((u->flags >> shift[dv]) & 3);
    if (stored == 0)
        return false;
    /* delay[k] separates stage k-1 from stage k */
    uint64_t delay[4] = { 0, u->rap_cr_delay, u->cr_dts_delay, u->dts_pts_delay };
    /* walk the chain one stage at a time from the stored stage to the wanted one */
    for (int k = stored + 1; k <= want; k++) {        /* to a later stage: add */
        if (delay[k] == UINT64_MAX)
            return false;
        date += delay[k];
    }
    for (int k = stored; k > want; k--) {             /* to an earlier stage: subtract */
        if (delay[k] == UINT64_MAX)
            return false;
        date -= delay[k];
    }
    *out = date;
    return true;
}

static int real_get(struct uref *u, int dv, int want, uint64_t *out)
{
    switch (dv * 4 + want) {
        case 0: return uref_clock_get_rap_sys(u, out);
        case 1: return uref_clock_get_cr_sys(u, out);
        case 2: return uref_clock_get_dts_sys(u, out);
        case 3: return uref_clock_get_pts_sys(u, out);
        case 4: return uref_clock_get_rap_prog(u, out);
        case 5: return uref_clock_get_cr_prog(u, out);
        case 6: return uref_clock_get_dts_prog(u, out);
        case 7: return uref_clock_get_pts_prog(u, out);
        case 8: return uref_clock_get_rap_orig(u, out);
        case 9: return uref_clock_get_cr_orig(u, out);
        case 10: return uref_clock_get_dts_orig(u, out);
        default: return uref_clock_get_pts_orig(u, out);
    }
}

static void take(struct uref *u, struct snap *s)
{
    for (int dv = 0; dv < 3; dv++)
        for (int w = 0; w < 4; w++) {
            uint64_t v = 0xdeadbeefcafef00dULL;
            s->ok[dv][w] = ubase_check(real_get(u, dv, w, &v));
            s->v[dv][w] = v;
        }
}

static void arbitrary(struct uref *u)
{
    memset(u, 0, sizeof(*u));
    u->flags = nd_u64();
    u->date_sys = nd_u64();
    u->date_prog = nd_u64();
    u->date_orig = nd_u64();
    u->dts_pts_delay = nd_u64();
    u->cr_dts_delay = nd_u64();
    u->rap_cr_delay = nd_u64();
    u->priv = nd_u64();
}

static bool same_fields(const struct uref *a, const struct uref *b)
{
    return a->flags == b->flags && a->date_sys == b->date_sys && a->date_prog == b->date_prog &&
           a->date_orig == b->date_orig && a->dts_pts_delay == b->dts_pts_delay &&
           a->cr_dts_delay == b->cr_dts_delay && a->rap_cr_delay == b->rap_cr_delay && a->priv == b->priv;
}

/* everything readable in `a` is readable with the same value in `b` (domains in mask) */
static void preserved(const struct snap *a, const struct snap *b, int dv_lo, int dv_hi, int w_lo)
{
    for (int dv = dv_lo; dv <= dv_hi; dv++)
        for (int w = w_lo; w < 4; w++)
            if (a->ok[dv][w]) {
                VASSERT(b->ok[dv][w], "a date that could be read before can still be read");
                VASSERT(a->v[dv][w] == b->v[dv][w], "a date that could be read before keeps its value");
            }
}

/* a tiny uref manager so that the real uref_dup() can be called */
static struct uref *h_uref_alloc(struct uref_mgr *mgr)
{
    struct uref *u = malloc(sizeof(struct uref));
    VASSUME(u != NULL);
    u->mgr = mgr;
    return u;
}
static void h_uref_free(struct uref *u) { free(u); }
static struct uref_mgr h_mgr = { NULL, 0, NULL, h_uref_alloc, h_uref_free, NULL };

static void do_set(struct uref *u, int dv, int dt, uint64_t v)
{
    switch (dv * 3 + dt) {
        case 0: uref_clock_set_cr_sys(u, v); break;
        case 1: uref_clock_set_dts_sys(u, v); break;
        case 2: uref_clock_set_pts_sys(u, v); break;
        case 3: uref_clock_set_cr_prog(u, v); break;
        case 4: uref_clock_set_dts_prog(u, v); break;
        case 5: uref_clock_set_pts_prog(u, v); break;
        case 6: uref_clock_set_cr_orig(u, v); break;
        case 7: uref_clock_set_dts_orig(u, v); break;
        default: uref_clock_set_pts_orig(u, v); break;
    }
}
static int do_rebase(struct uref *u, int dv, int dt)
{
    switch (dv * 3 + dt) {
        case 0: return uref_clock_rebase_cr_sys(u);
        case 1: return uref_clock_rebase_dts_sys(u);
        case 2: return uref_clock_rebase_pts_sys(u);
        case 3: return uref_clock_rebase_cr_prog(u);
        case 4: return uref_clock_rebase_dts_prog(u);
        case 5: return uref_clock_rebase_pts_prog(u);
        case 6: return uref_clock_rebase_cr_orig(u);
        case 7: return uref_clock_rebase_dts_orig(u);
        default: return uref_clock_rebase_pts_orig(u);
    }
}
static int do_set_rap(struct uref *u, int dv, uint64_t r)
{
    return dv == 0 ? uref_clock_set_rap_sys(u, r) : dv == 1 ? uref_clock_set_rap_prog(u, r) :
           uref_clock_set_rap_orig(u, r);
}
static void do_delete(struct uref *u, int dv)
{
    if (dv == 0) uref_clock_delete_date_sys(u);
    else if (dv == 1) uref_clock_delete_date_prog(u);
    else uref_clock_delete_date_orig(u);
}
static void do_add(struct uref *u, int dv, int64_t d)
{
    if (dv == 0) uref_clock_add_date_sys(u, d);
    else if (dv == 1) uref_clock_add_date_prog(u, d);
    else uref_clock_add_date_orig(u, d);
}

int main(void)
{
    struct uref u;
    arbitrary(&u);
    u.mgr = &h_mgr;
    u.ubuf = NULL;
    u.udict = NULL;

#ifdef MODE_DIFF
    int dv = SEL_DV, w = SEL_W;
    uint64_t junk = nd_u64();
    uint64_t got = junk, want = 0;
    struct uref before = u;
    int err = real_get(&u, dv, w, &got);
    bool ok = ref_get(&before, dv, w, &want);
    VASSERT(ubase_check(err) == ok, "getter succeeds exactly when the stored date and every delay on the way are set");
    if (ok)
        VASSERT(got == want, "getter value = stored date +/- the delays between the two stages (mod 2^64)");
    VASSERT(same_fields(&u, &before), "reading a date changes nothing");
    /* the algebra, stated directly on the accessors */
    uint64_t cr, dts, pts, rap, d;
    bool kcr = ubase_check(real_get(&u, dv, 1, &cr)), kdts = ubase_check(real_get(&u, dv, 2, &dts));
    bool kpts = ubase_check(real_get(&u, dv, 3, &pts)), krap = ubase_check(real_get(&u, dv, 0, &rap));
    if (kcr && kdts && ubase_check(uref_clock_get_cr_dts_delay(&u, &d)))
        VASSERT(dts == cr + d, "dts = cr + cr_dts_delay");
    if (kdts && kpts && ubase_check(uref_clock_get_dts_pts_delay(&u, &d)))
        VASSERT(pts == dts + d, "pts = dts + dts_pts_delay");
    if (krap && kcr && ubase_check(uref_clock_get_rap_cr_delay(&u, &d)))
        VASSERT(rap == cr - d, "rap = cr - rap_cr_delay");
    /* get_X(NULL) is allowed and returns the same code */
    VASSERT(real_get(&u, dv, w, NULL) == err, "NULL result pointer: same return code");
#ifdef WITNESS
    VASSUME(ok && ((before.flags >> (58 + 2 * dv)) & 3) == (w == 1 ? 3 : 1));
#endif
#endif

#ifdef MODE_STEP
    struct uref before = u;
    struct snap a, b;
    take(&u, &a);
    VASSERT(same_fields(&u, &before), "reading all dates changes nothing");
    int op = SEL_OP;
    int dv = SEL_DV, dt = SEL_DT;
    uint64_t v = nd_u64();
    if (op == 0) {              /* set_<dt>_<dv>(v) */
        do_set(&u, dv, dt, v);
        take(&u, &b);
        VASSERT(b.ok[dv][dt + 1] && b.v[dv][dt + 1] == v, "a date set as one type reads back as the same value of that type");
        /* recording the delay when moving to a later stage: the stored (earlier) date stays readable */
        int stored = (int)((before.flags >> (58 + 2 * dv)) & 3);
        if (stored != 0 && stored < dt + 1 && a.ok[dv][stored] &&
            !(stored == 1 && dt == 2 && before.dts_pts_delay == UINT64_MAX) &&
            b.ok[dv][stored])
            VASSERT(b.v[dv][stored] == a.v[dv][stored], "setting a later-stage date keeps the earlier stored date (delay recorded)");
        /* the two other date fields are untouched */
        VASSERT((dv == 0 || u.date_sys == before.date_sys) && (dv == 1 || u.date_prog == before.date_prog) &&
                (dv == 2 || u.date_orig == before.date_orig), "set on one domain leaves the other domains' stored dates alone");
    } else if (op == 1) {       /* rebase_<dt>_<dv> */
        int err = do_rebase(&u, dv, dt);
        take(&u, &b);
        if (!ubase_check(err))
            VASSERT(same_fields(&u, &before), "failed rebase changes nothing");
        else
            VASSERT(a.ok[dv][dt + 1], "rebase succeeds only if the date was readable as that type");
        preserved(&a, &b, 0, 2, 0);
    } else if (op == 2) {       /* set_rap_<dv>(v) */
        int err = do_set_rap(&u, dv, v);
        take(&u, &b);
        if (ubase_check(err)) {
            VASSERT(a.ok[dv][1] && v <= a.v[dv][1], "a RAP can only be recorded at or before the clock reference");
            if (a.v[dv][1] - v != UINT64_MAX)
                VASSERT(b.ok[dv][0] && b.v[dv][0] == v, "recorded RAP reads back");
            preserved(&a, &b, 0, 2, 1);     /* cr / dts / pts of all domains unchanged */
        } else
            VASSERT(same_fields(&u, &before), "refused RAP changes nothing");
        if (a.ok[dv][1] && v < a.v[dv][1])
            VASSERT(ubase_check(err), "a RAP strictly before the clock reference is accepted");
    } else if (op == 3) {       /* delete_date_<dv> */
        do_delete(&u, dv);
        take(&u, &b);
        for (int w = 0; w < 4; w++)
            VASSERT(!b.ok[dv][w], "deleted date is not readable as any type");
        for (int o = 0; o < 3; o++)
            if (o != dv)
                preserved(&a, &b, o, o, 0);
    } else if (op == 4) {       /* add_date_<dv>(v) */
        do_add(&u, dv, (int64_t)v);
        take(&u, &b);
        uint64_t stored = dv == 0 ? before.date_sys : dv == 1 ? before.date_prog : before.date_orig;
        for (int w = 0; w < 4; w++)
            if (a.ok[dv][w] && stored != UINT64_MAX) {
                VASSERT(b.ok[dv][w] && b.v[dv][w] == a.v[dv][w] + v, "add shifts every view of the date by the delay");
            }
        for (int o = 0; o < 3; o++)
            if (o != dv)
                preserved(&a, &b, o, o, 0);
    } else {                    /* dup */
        struct uref *c = uref_dup(&u);
        VASSUME(c != NULL);
        take(c, &b);
        for (int d2 = 0; d2 < 3; d2++)
            for (int w = 0; w < 4; w++) {
                VASSERT(a.ok[d2][w] == b.ok[d2][w], "duplicate: same dates readable");
                if (a.ok[d2][w])
                    VASSERT(a.v[d2][w] == b.v[d2][w], "duplicate: same date values");
            }
        VASSERT(same_fields(&u, &before), "duplicating changes nothing in the original");
        VASSERT(c->priv == u.priv && c->flags == u.flags, "duplicate carries flags and priv");
        uref_free(c);
    }
#ifdef WITNESS
    if (op == 1)
        VASSUME(((before.flags >> (58 + 2 * dv)) & 3) == (dt == 0 ? 3 : 1) && a.ok[dv][dt + 1]);
    if (op == 2)
        VASSUME(a.ok[dv][1] && v < a.v[dv][1]);
    if (op == 4)
        VASSUME(a.ok[dv][3] && a.ok[dv][0]);
#endif
#endif
    VWITNESS();
    return 0;
}
