/* C12: requests travel downstream, answers travel back, surviving re-plumbing.
 * Real code: urequest.h (proxies), upipe.h register/unregister, upipe_helper_output.h (register_output_request,
 * alloc/free_output_proxy, set_output replay, clean_output) as expanded in two real upipe_idem pipes chained
 * A -> B, in front of two recording sinks.  The requester is the harness (two sink-latency requests R0, R1).
 * OPS (driver-enumerated sequence):
 *  0/1 register R0/R1 on A      2/3 unregister R0/R1
 *  4 connect A -> B   5 disconnect A   6/7 connect B -> S0/S1   8 disconnect B
 *  9/10 sink S0/S1 answers every request currently lodged with it (symbolic value)
 * After every operation the invariant is checked: a registered request is lodged (through proxies) with exactly
 * one place -- the sink the chain currently ends at -- exactly once, nothing is lodged with a sink the chain does
 * not reach, nothing of an unregistered request is lodged anywhere; an answer reaches the ORIGINAL requester's
 * callback with the provider's value; after unregister the callback is never invoked again.  At the end
 * everything is released: proxies are freed (memory-leak check), no sink keeps a lodged request. */
#include "pipe_env.h"
#include "lib/upipe-modules/upipe_idem.c"

#define NREQ 2
#define MAXLODGE 6
static struct urequest R[NREQ];
static bool registered[NREQ];
static unsigned answers[NREQ];
static uint64_t last_value[NREQ];
static bool expect_answer[NREQ];
static uint64_t expect_value;

static int req_provide(struct urequest *urequest, va_list args)
{
    int i = urequest == &R[0] ? 0 : urequest == &R[1] ? 1 : -1;
    VASSERT(i >= 0 && i < NREQ, "answer delivered to one of the original requests");
    VASSERT(registered[i], "after a request has been unregistered its callback is never invoked again");
    uint64_t v = va_arg(args, uint64_t);
    VASSERT(expect_answer[i], "an answer arrives only when a provider the chain reaches gave one");
    VASSERT(v == expect_value, "the answer carries the provider's value");
    answers[i]++;
    last_value[i] = v;
    return UBASE_ERR_NONE;
}

/* sinks keep what is lodged with them */
static struct urequest *lodged[ENV_NSINKS][MAXLODGE];
static int nlodged[ENV_NSINKS];

static struct urequest *root_of(struct urequest *p)
{
    for (int hop = 0; hop < 4; hop++) {
        for (int i = 0; i < NREQ; i++)
            if (p == &R[i])
                return p;
        p = urequest_get_opaque(p, struct urequest *);
    }
    return NULL;
}
static int sink_control(struct upipe *upipe, int command, va_list args)
{
    struct env_sink *s = env_sink_of(upipe);
    switch (command) {
        case UPIPE_SET_FLOW_DEF:
            return UBASE_ERR_NONE;
        case UPIPE_REGISTER_REQUEST: {
            struct urequest *r = va_arg(args, struct urequest *);
            VASSERT(nlodged[s->id] < MAXLODGE, "harness capacity: lodged requests");
            VASSERT(root_of(r) != NULL, "a lodged request is a proxy chain of an original request");
            lodged[s->id][nlodged[s->id]++] = r;
            return UBASE_ERR_NONE;
        }
        case UPIPE_UNREGISTER_REQUEST: {
            struct urequest *r = va_arg(args, struct urequest *);
            int found = -1;
            for (int i = 0; i < nlodged[s->id]; i++)
                if (lodged[s->id][i] == r)
                    found = i;
            VASSERT(found >= 0, "only a request that is lodged with this output is withdrawn from it");
            for (int i = found; i + 1 < nlodged[s->id]; i++)
                lodged[s->id][i] = lodged[s->id][i + 1];
            nlodged[s->id]--;
            return UBASE_ERR_NONE;
        }
        default:
            return UBASE_ERR_UNHANDLED;
    }
}

static struct upipe *A, *B;
static int a_out, b_out = -1;       /* a_out: 1 = connected to B; b_out: sink index or -1 */

static void invariant(void)
{
    int reach = (a_out && b_out >= 0) ? b_out : -1;
    for (int r = 0; r < NREQ; r++)
        for (int s = 0; s < ENV_NSINKS; s++) {
            int n = 0;
            for (int i = 0; i < nlodged[s]; i++)
                if (root_of(lodged[s][i]) == &R[r])
                    n++;
            if (registered[r] && s == reach)
                VASSERT(n == 1, "a registered request is lodged exactly once with the provider the chain ends at");
            else
                VASSERT(n == 0, "nothing is lodged with an output the chain does not reach, nor for an unregistered request");
        }
}

int main(void)
{
    static const int ops[] = { OPS };
    env_init();
    env_probe_init();
    env_sinks_init();
    env_sink_mgr.upipe_control = sink_control;
    struct upipe_mgr *mgr = upipe_idem_mgr_alloc();
    A = upipe_void_alloc(mgr, uprobe_use(&env_probe));
    B = upipe_void_alloc(mgr, uprobe_use(&env_probe));
    VASSUME(A != NULL && B != NULL);
    for (int i = 0; i < NREQ; i++)
        urequest_init_sink_latency(&R[i], req_provide, NULL);
    unsigned total_answers = 0;
    for (unsigned k = 0; k < sizeof(ops) / sizeof(ops[0]); k++) {
        int op = ops[k];
        switch (op) {
            case 0: case 1:
                VASSUME(!registered[op]);
                registered[op] = true;
                (void)upipe_register_request(A, &R[op]);
                break;
            case 2: case 3:
                VASSUME(registered[op - 2]);
                VASSERT(ubase_check(upipe_unregister_request(A, &R[op - 2])), "unregister succeeds");
                registered[op - 2] = false;
                break;
            case 4: VASSERT(ubase_check(upipe_set_output(A, B)), "set_output succeeds"); a_out = 1; break;
            case 5: VASSERT(ubase_check(upipe_set_output(A, NULL)), "set_output succeeds"); a_out = 0; break;
            case 6: case 7:
                VASSERT(ubase_check(upipe_set_output(B, &env_sinks[op - 6].upipe)), "set_output succeeds");
                b_out = op - 6;
                break;
            case 8: VASSERT(ubase_check(upipe_set_output(B, NULL)), "set_output succeeds"); b_out = -1; break;
            default: {
                int s = op - 9;
                expect_value = nd_u64();
                unsigned before[NREQ];
                for (int r = 0; r < NREQ; r++) {
                    before[r] = answers[r];
                    expect_answer[r] = false;
                }
                int n = nlodged[s];
                for (int i = 0; i < n && i < MAXLODGE; i++) {
                    struct urequest *root = root_of(lodged[s][i]);
                    expect_answer[root == &R[0] ? 0 : 1] = true;
                    VASSERT(ubase_check(urequest_provide_sink_latency(lodged[s][i], expect_value)), "provide succeeds");
                }
                for (int r = 0; r < NREQ; r++) {
                    bool should = registered[r] && a_out && b_out == s;
                    VASSERT(answers[r] == before[r] + (should ? 1u : 0u),
                            "the answer of the provider reaches the original requester exactly once (and nobody else)");
                    if (should)
                        VASSERT(last_value[r] == expect_value, "with the provider's value");
                    expect_answer[r] = false;
                    total_answers += should;
                }
                break;
            }
        }
        invariant();
    }
#ifdef WITNESS
    VASSUME(total_answers >= WITNESS_ANSWERS);
#endif
    VWITNESS();
    (void)total_answers;
    /* teardown: requests still registered are withdrawn by their owner, then the pipes go */
    for (int r = 0; r < NREQ; r++)
        if (registered[r]) {
            upipe_unregister_request(A, &R[r]);
            registered[r] = false;
        }
    invariant();
    upipe_release(A);
    upipe_release(B);
    for (int s = 0; s < ENV_NSINKS; s++)
        VASSERT(nlodged[s] == 0, "nothing stays lodged with an output once the chain is gone");
    for (int r = 0; r < NREQ; r++)
        urequest_clean(&R[r]);
    env_sinks_done();
    upipe_mgr_release(mgr);
    env_done();
    return 0;
}
