/* C13: a pump is active in the loop exactly when started and no blocker is held.
 * Real code: lib/upipe/upump_common.c (entire), upump.h, upump_blocker.h, driven through the
 * public upump_* API over the mock loop back end (upump_mock.h mirrors upump_ev.c's glue).
 *
 * MODE_STEP: inductive step.  The abstract state of a pump is (started, status, number of
 *   blockers); every abstract state with <= 3 blockers is built by a canonical real call
 *   sequence chosen by symbolic (started, status, nb), then ONE symbolic operation is applied
 *   and the reference automaton is compared.  MODE_SEQ: K symbolic operations from init.
 * Reference automaton: 3 variables (started, status, nblk); active <=> started && nblk == 0. */
#include <stdlib.h>
#include <assert.h>
#include "nd.h"
#include "upump_mock.h"

#define MAXB 4
#ifndef IDX
#define IDX 0
#endif
#ifndef SR
#define SR 0
#endif
#ifndef BF
#define BF 1
#endif
static struct upump_mgr *mgr;
static struct upump *pump;
static struct upump_blocker *blk[MAXB];
static unsigned blk_cb_calls[MAXB];
static unsigned nblk;                    /* reference: blockers held */
static bool r_started, r_status = true;  /* reference */
static bool pump_freed;
static unsigned cb_calls;
static int cb_behaviour;                 /* what the pump callback does (symbolic) */

/* the owner of the pump: a refcounted object whose destructor frees the pump (MODE_DISPATCH only:
 * keeping it out of the other modes keeps the function-pointer targets of urefcount_release unambiguous) */
#ifdef MODE_DISPATCH
struct owner { struct urefcount refcount; struct upump *pump; bool dead; int touched; };
static struct owner *owner;
static void owner_free(struct urefcount *rc)
{
    struct owner *o = container_of(rc, struct owner, refcount);
    o->dead = true;
    if (o->pump != NULL) {
        upump_free(o->pump);
        pump_freed = true;
    }
    urefcount_clean(rc);
    free(o);
    owner = NULL;
}
#endif

static void blocker_cb(struct upump_blocker *b)
{
    int idx = (int)(intptr_t)upump_blocker_get_opaque(b, void *);
    VASSERT(idx >= 0 && idx < MAXB && blk[idx] == b, "blocker callback gets its own blocker");
    blk_cb_calls[idx]++;
    /* what every user of blockers does (upipe_helper_input, queue sink): free it */
    upump_blocker_free(b);
    blk[idx] = NULL;
}

static void pump_cb(struct upump *p)
{
    VASSERT(p == pump && !pump_freed, "callback invoked on a freed pump");
    VASSERT(r_started && nblk == 0, "callback invoked while stopped or blocked");
    cb_calls++;
    switch (cb_behaviour) {
        case 1:             /* one-shot: stop myself */
            upump_stop(p);
            r_started = false;
            break;
#ifdef MODE_DISPATCH
        case 2:             /* the callback drops the last application reference on the owner;
                               dispatch must keep the owner (and the pump) alive until we return */
            if (owner != NULL) {
                struct owner *o = owner;
                urefcount_release(&o->refcount);
                VASSERT(!o->dead, "owner destroyed during its pump's callback");
                o->touched++;
                VASSERT(!pump_freed, "pump freed during its own callback");
            }
            break;
#endif
        default:
            break;
    }
}

static void check(void)
{
    if (pump_freed)
        return;
    struct upump_mock *m = mock_of(pump);
    VASSERT(m->active == (r_started && nblk == 0), "active in the loop <=> started and no blocker held");
    bool st;
    upump_get_status(pump, &st);
    VASSERT(st == r_status, "status getter reports the last status set");
    if (m->active)
        VASSERT(m->start_status == r_status, "active watcher registered with the current keep-alive status");
    struct upump_mock_mgr *mm = upump_mock_mgr_from_upump_mgr(mgr);
    VASSERT(mm->loop_unref == ((m->active && !r_status) ? 1 : 0), "loop keep-alive balance");
}

/* idx (which blocker slot) is always a compile-time constant chosen by the driver: a symbolic
 * index into heap objects makes every later list access ambiguous for symex (measured: no
 * verdict in 120 s, against 0.4 s); blockers are interchangeable, and the driver enumerates idx. */
static void one_op(int op, unsigned idx, bool flag)
{
    switch (op) {
        case 0: upump_start(pump); r_started = true; break;
        case 1: upump_stop(pump); r_started = false; break;
        case 2: upump_restart(pump); r_started = true; break;
        case 3: upump_set_status(pump, flag); r_status = flag; break;
        case 4: {           /* blocker alloc */
            VASSUME(blk[idx] == NULL);
            blk[idx] = upump_blocker_alloc(pump, blocker_cb, (void *)(intptr_t)idx);
            VASSUME(blk[idx] != NULL);
            nblk++;
            break;
        }
        case 5: {           /* blocker free */
            VASSUME(blk[idx] != NULL);
            upump_blocker_free(blk[idx]);
            blk[idx] = NULL;
            nblk--;
            break;
        }
        case 6: {           /* the loop fires the watcher -- only possible while it is active */
            VASSUME(mock_can_fire(pump));
            unsigned before = cb_calls;
#ifdef MODE_DISPATCH
            cb_behaviour = 2;
#else
            cb_behaviour = flag ? 1 : 0;
#endif
            mock_fire(pump);
            VASSERT(cb_calls == before + 1, "dispatch runs the callback once");
#ifdef MODE_DISPATCH
            VASSERT(owner == NULL && pump_freed, "owner destroyed (and pump freed) once dispatch let go of it");
#endif
            break;
        }
        default: {          /* free, with blockers possibly outstanding */
            unsigned held[MAXB];
            for (int i = 0; i < MAXB; i++) {
                held[i] = blk[i] != NULL;
                blk_cb_calls[i] = 0;
            }
            upump_free(pump);
            pump_freed = true;
            for (int i = 0; i < MAXB; i++) {
                VASSERT(blk_cb_calls[i] == held[i], "free notifies every outstanding blocker exactly once (and no other)");
                VASSERT(blk[i] == NULL, "all blockers gone after free");
            }
            nblk = 0;
            break;
        }
    }
}

int main(void)
{
    mgr = mock_mgr_alloc();
#ifdef MODE_DISPATCH
    owner = malloc(sizeof(*owner));
    VASSUME(owner != NULL);
    urefcount_init(&owner->refcount, owner_free);
    owner->dead = false;
    owner->touched = 0;
    pump = upump_alloc_idler(mgr, pump_cb, owner, &owner->refcount);
    VASSUME(pump != NULL);
    owner->pump = pump;
    check();
    /* dispatch holds the owner's reference across the callback: the loop fires a started pump
     * and the callback drops the owner's last reference */
    one_op(3, 0, nd_bool());
    one_op(SR, 0, false);
    check();
    one_op(6, 0, false);
#else
    pump = upump_alloc_idler(mgr, pump_cb, NULL, NULL);
    VASSUME(pump != NULL);
    check();
#endif

#if defined(MODE_STEP)
    /* canonical construction of an arbitrary abstract state (started, status, NBLK blockers);
     * BF: blockers taken before (1) or after (0) the start; SR: started through start (0) or restart (2) */
    bool want_started = nd_bool(), want_status = nd_bool();
    if (BF)
        for (unsigned i = 0; i < NBLK; i++)
            one_op(4, i, false);
    if (!want_status)
        one_op(3, 0, false);
    if (want_started)
        one_op(SR, 0, false);
    if (!BF)
        for (unsigned i = 0; i < NBLK; i++)
            one_op(4, i, false);
    check();
#ifdef COP
    int op = COP;
#else
    int op = (int)nd_range(0, 7);
#endif
    one_op(op, IDX, nd_bool());
    check();
#elif defined(MODE_SEQ)
    /* OPS: comma-separated list of (kind*4 + idx) codes chosen by the driver; flags symbolic */
    static const int ops[] = { OPS };
    for (unsigned k = 0; k < sizeof(ops) / sizeof(ops[0]); k++) {
        if (pump_freed)
            break;
        one_op(ops[k] / 4, ops[k] % 4, nd_bool());
        check();
    }
#endif
    VWITNESS();
    /* teardown: whatever is left is released; nothing may remain allocated */
    if (!pump_freed) {
        for (int i = 0; i < MAXB; i++)
            if (blk[i] != NULL) {
                upump_blocker_free(blk[i]);
                blk[i] = NULL;
            }
        upump_free(pump);
        pump_freed = true;
    }
    VASSERT(upump_mock_mgr_from_upump_mgr(mgr)->loop_unref == 0, "loop keep-alive balance restored after free");
    upump_mgr_release(mgr);
    return 0;
}
