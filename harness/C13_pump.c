/* C13: a pump is active in the loop exactly when started and no blocker is held.
 * Real code: lib/upipe/upump_common.c (entire), upump.h, upump_blocker.h, driven through the
 * public upump_* API over the mock loop back end (upump_mock.h mirrors upump_ev.c's glue).
 *
 * MODE_STEP: inductive step.  The abstract state of a pump is (started, status, number of
 *   blockers); every abstract state with <= 3 blockers is built by a canonical real call
 *   sequence chosen by symbolic (started, status, nb), then ONE symbolic operation is applied
 *   and the reference automaton is compared.  MODE_SEQ: K symbolic operations from init.
 * Reference automaton: 3 variables (started, status, nblk); active <=> started && nblk == 0. */
#include <stdlib.h>
#include <assert.h>
#include "nd.h"
#include "upump_mock.h"

#define MAXB 4
static struct upump_mgr *mgr;
static struct upump *pump;
static struct upump_blocker *blk[MAXB];
static unsigned blk_cb_calls[MAXB];
static unsigned nblk;                    /* reference: blockers held */
static bool r_started, r_status = true;  /* reference */
static bool pump_freed;
static unsigned cb_calls;
static int cb_behaviour;                 /* what the pump callback does (symbolic) */

/* the owner of the pump: a refcounted object whose destructor frees the pump */
struct owner { struct urefcount refcount; struct upump *pump; bool dead; int touched; };
static struct owner *owner;
static void owner_free(struct urefcount *rc)
{
    struct owner *o = container_of(rc, struct owner, refcount);
    o->dead = true;
    if (o->pump != NULL) {
        upump_free(o->pump);
        pump_freed = true;
    }
    urefcount_clean(rc);
    free(o);
    owner = NULL;
}

static void blocker_cb(struct upump_blocker *b)
{
    int idx = (int)(intptr_t)upump_blocker_get_opaque(b, void *);
    VASSERT(idx >= 0 && idx < MAXB && blk[idx] == b, "blocker callback gets its own blocker");
    blk_cb_calls[idx]++;
    /* what every user of blockers does (upipe_helper_input, queue sink): free it */
    upump_blocker_free(b);
    blk[idx] = NULL;
}

static void pump_cb(struct upump *p)
{
    VASSERT(p == pump && !pump_freed, "callback invoked on a freed pump");
    VASSERT(r_started && nblk == 0, "callback invoked while stopped or blocked");
    cb_calls++;
    switch (cb_behaviour) {
        case 1:             /* one-shot: stop myself */
            upump_stop(p);
            r_started = false;
            break;
        case 2:             /* the callback drops the last application reference on the owner;
                               dispatch must keep the owner (and the pump) alive until we return */
            if (owner != NULL) {
                struct owner *o = owner;
                urefcount_release(&o->refcount);
                VASSERT(!o->dead, "owner destroyed during its pump's callback");
                o->touched++;
                VASSERT(!pump_freed, "pump freed during its own callback");
            }
            break;
        default:
            break;
    }
}

static void check(void)
{
    if (pump_freed)
        return;
    struct upump_mock *m = mock_of(pump);
    VASSERT(m->active == (r_started && nblk == 0), "active in the loop <=> started and no blocker held");
    bool st;
    upump_get_status(pump, &st);
    VASSERT(st == r_status, "status getter reports the last status set");
    if (m->active)
        VASSERT(m->start_status == r_status, "active watcher registered with the current keep-alive status");
    struct upump_mock_mgr *mm = upump_mock_mgr_from_upump_mgr(mgr);
    VASSERT(mm->loop_unref == ((m->active && !r_status) ? 1 : 0), "loop keep-alive balance");
}

static void one_op(int op, unsigned arg)
{
    switch (op) {
        case 0: upump_start(pump); r_started = true; break;
        case 1: upump_stop(pump); r_started = false; break;
        case 2: upump_restart(pump); r_started = true; break;
        case 3: upump_set_status(pump, (arg & 1) != 0); r_status = (arg & 1) != 0; break;
        case 4: {           /* blocker alloc */
            unsigned i = arg % MAXB;
            VASSUME(blk[i] == NULL);
            blk[i] = upump_blocker_alloc(pump, blocker_cb, (void *)(intptr_t)i);
            VASSUME(blk[i] != NULL);
            nblk++;
            break;
        }
        case 5: {           /* blocker free */
            unsigned i = arg % MAXB;
            VASSUME(blk[i] != NULL);
            upump_blocker_free(blk[i]);
            blk[i] = NULL;
            nblk--;
            break;
        }
        case 6: {           /* the loop fires the watcher -- only possible while it is active */
            VASSUME(mock_can_fire(pump));
            unsigned before = cb_calls;
            cb_behaviour = (int)(arg % 3);
            mock_fire(pump);
            VASSERT(cb_calls == before + 1, "dispatch runs the callback once");
            if (cb_behaviour == 2)
                VASSERT(owner == NULL && pump_freed, "owner destroyed (and pump freed) once dispatch let go of it");
            break;
        }
        default: {          /* free, with blockers possibly outstanding */
            unsigned held[MAXB];
            for (int i = 0; i < MAXB; i++) {
                held[i] = blk[i] != NULL;
                blk_cb_calls[i] = 0;
            }
            owner->pump = NULL;
            upump_free(pump);
            pump_freed = true;
            for (int i = 0; i < MAXB; i++) {
                VASSERT(blk_cb_calls[i] == held[i], "free notifies every outstanding blocker exactly once (and no other)");
                VASSERT(blk[i] == NULL, "all blockers gone after free");
            }
            nblk = 0;
            break;
        }
    }
}

int main(void)
{
    mgr = mock_mgr_alloc();
    owner = malloc(sizeof(*owner));
    VASSUME(owner != NULL);
    urefcount_init(&owner->refcount, owner_free);
    owner->dead = false;
    owner->touched = 0;
    pump = upump_alloc_idler(mgr, pump_cb, owner, &owner->refcount);
    VASSUME(pump != NULL);
    owner->pump = pump;
    check();

#ifdef MODE_STEP
    /* canonical construction of an arbitrary abstract state */
    unsigned nb = NBLK;                 /* 0..3, case-split by the driver */
    bool want_started = nd_bool(), want_status = nd_bool();
    bool block_first = nd_bool();       /* blockers taken before or after start: same abstract state */
    if (block_first)
        for (unsigned i = 0; i < nb; i++)
            one_op(4, i);
    if (!want_status)
        one_op(3, 0);
    if (want_started)
        one_op(nd_bool() ? 0 : 2, 0);
    if (!block_first)
        for (unsigned i = 0; i < nb; i++)
            one_op(4, i);
    check();
    int op = (int)nd_range(0, 7);
    unsigned arg = nd_u8();
    one_op(op, arg);
    check();
#ifdef WITNESS
    VASSUME(op == WITNESS_OP);
#endif
#else
    int last = -1;
    for (int k = 0; k < KOPS; k++) {
        if (pump_freed)
            break;
        int op = (int)nd_range(0, 7);
        unsigned arg = nd_u8();
        one_op(op, arg);
        check();
        last = op;
    }
#ifdef WITNESS
    VASSUME(last == 7 && nblk == 0 && cb_calls >= 1);
#endif
#endif
    VWITNESS();
    /* teardown: whatever is left is released; nothing may remain allocated */
    if (!pump_freed) {
        for (int i = 0; i < MAXB; i++)
            if (blk[i] != NULL) {
                upump_blocker_free(blk[i]);
                blk[i] = NULL;
            }
        owner->pump = NULL;
        upump_free(pump);
        pump_freed = true;
    }
    if (owner != NULL)
        urefcount_release(&owner->refcount);
    VASSERT(upump_mock_mgr_from_upump_mgr(mgr)->loop_unref == 0, "loop keep-alive balance restored after free");
    upump_mgr_release(mgr);
    return 0;
}
