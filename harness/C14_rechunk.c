/* C14: stream re-chunking pipes conserve bytes and ignore chunk boundaries.
 * Real code: upipe_chunk_stream.c / upipe_aggregate.c + upipe_helper_uref_stream.h (append, extract,
 * consume) + helper_output(_size), over the real block manager.
 * A stream of NB symbolic octets is cut into buffers in two ways (CUT_A, CUT_B: buffer sizes, discrete
 * selectors chosen by the driver, empty and one-octet buffers included); instance P gets cutting A,
 * instance Q cutting B, then both are released (which flushes).  Configuration (MTU, ALIGN) is a
 * discrete selector as well (sizes of extracted blocks decide the heap shape); octets are symbolic.
 *  - outputs are, in order and without overlap, octets of the input (concatenation == prefix of stream)
 *  - chunk_stream: every unit is a multiple of ALIGN and <= MTU, all full units have the aligned size,
 *    everything is output but for a tail shorter than ALIGN
 *  - chunk_stream (a stream parser): P and Q produce the same unit sequence (cut independence)
 *  - aggregate: every accepted octet is output exactly once, units <= MTU; only whole input buffers
 *    are grouped
 *  - release / flush terminate: the loops carry unwinding assertions (bound NB + 2 iterations) */
#include "pipe_env.h"

#define P_CHUNK 1
#define P_AGG 2
#if PIPE == P_CHUNK
#include "lib/upipe-modules/upipe_chunk_stream.c"
#define MGR_ALLOC() upipe_chunk_stream_mgr_alloc()
#define CONFIGURE(p) VASSERT(ubase_check(upipe_chunk_stream_set_mtu(p, MTU, ALIGN)), "harness: configuration accepted")
#else
#include "lib/upipe-modules/upipe_aggregate.c"
#define MGR_ALLOC() upipe_agg_mgr_alloc()
#define CONFIGURE(p) VASSERT(ubase_check(upipe_set_output_size(p, MTU)), "harness: configuration accepted")
#ifndef ALIGN
#define ALIGN 1
#endif
#endif

#ifndef NB
#define NB 6
#endif
static uint8_t stream[NB];

static struct upipe *mk(struct upipe_mgr *mgr, struct env_sink *sink)
{
    struct upipe *p = upipe_void_alloc(mgr, uprobe_use(&env_probe));
    VASSUME(p != NULL);
    CONFIGURE(p);
    struct uref *fd = env_flow_def("block.");
    VASSERT(ubase_check(upipe_set_flow_def(p, fd)), "harness: flow definition accepted");
    uref_free(fd);
    VASSERT(ubase_check(upipe_set_output(p, &sink->upipe)), "harness: output connected");
    return p;
}
/* feed the stream cut as given; returns the number of octets the pipe accepted */
static int feed(struct upipe *p, const int *cut, int ncut)
{
    int pos = 0, accepted = 0;
    for (int i = 0; i < ncut; i++) {
        /* a cut entry 100*a + b is ONE buffer of a + b octets made of two chained segments */
        int size = cut[i] >= 100 ? cut[i] / 100 + cut[i] % 100 : cut[i];
        struct uref *u;
        if (cut[i] >= 100) {
            u = env_block_uref(&stream[pos], cut[i] / 100);
            struct uref *t = env_block_uref(&stream[pos + cut[i] / 100], cut[i] % 100);
            struct ubuf *tail = uref_detach_ubuf(t);
            uref_free(t);
            VASSERT(ubase_check(uref_block_append(u, tail)), "harness: segmented buffer built");
        } else
            u = env_block_uref(&stream[pos], size);
        upipe_input(p, u, NULL);
#if PIPE == P_AGG
        if (size > 0 && size <= MTU)        /* the aggregator documents that it drops empty / oversized units */
#endif
            accepted += size;
        pos += size;
    }
    VASSERT(pos == NB, "harness: cutting covers the stream");
    return accepted;
}
/* the sink's units, concatenated; checks per-unit constraints */
static int collect(struct env_sink *s, uint8_t *out, int *sizes, const int *cut, int ncut)
{
    int n = 0;
    for (unsigned k = 0; k < s->n_in; k++) {
        uint8_t b[NB + 2];
        int l = env_sink_read(s, k, b, NB);
        sizes[k] = l;
        VASSERT(l <= MTU, "every output unit respects the configured maximum size");
#if PIPE == P_CHUNK
        VASSERT(l % ALIGN == 0, "chunk_stream: every unit is a multiple of the alignment");
        VASSERT(l > 0, "chunk_stream: no empty unit is output");
        if (k + 1 < s->n_in)
            VASSERT(l == (MTU / ALIGN) * ALIGN, "chunk_stream: every unit but the last has the aligned MTU size");
#endif
        for (int i = 0; i < l; i++) {
            VASSERT(n < NB, "outputs hold no more octets than the input");
            out[n++] = b[i];
        }
    }
    (void)cut; (void)ncut;
    return n;
}

int main(void)
{
    static const int cut_a[] = { CUT_A };
    static const int cut_b[] = { CUT_B };
    env_init();
    env_probe_init();
    env_sinks_init();
    for (int i = 0; i < NB; i++)
        stream[i] = nd_u8();
    struct upipe_mgr *mgr = MGR_ALLOC();
    struct upipe *P = mk(mgr, &env_sinks[0]);
    struct upipe *Q = mk(mgr, &env_sinks[1]);
    int acc_p = feed(P, cut_a, sizeof(cut_a) / sizeof(cut_a[0]));
    int acc_q = feed(Q, cut_b, sizeof(cut_b) / sizeof(cut_b[0]));
#ifdef FLUSH_FIRST
    (void)upipe_flush(P);
    (void)upipe_flush(Q);
#endif
    upipe_release(P);       /* releasing flushes what is pending: must terminate */
    upipe_release(Q);

    uint8_t out_p[NB + 2], out_q[NB + 2];
    int sz_p[ENV_MAXIN], sz_q[ENV_MAXIN];
    int np = collect(&env_sinks[0], out_p, sz_p, cut_a, sizeof(cut_a) / sizeof(cut_a[0]));
    int nq = collect(&env_sinks[1], out_q, sz_q, cut_b, sizeof(cut_b) / sizeof(cut_b[0]));
#if PIPE == P_CHUNK
    /* in order, without overlap, only input octets: the concatenation is a prefix of the stream */
    for (int i = 0; i < np; i++)
        VASSERT(out_p[i] == stream[i], "outputs are the input octets, in order, without overlap");
    VASSERT(acc_p - np >= 0 && acc_p - np < ALIGN, "every accepted octet is output exactly once, but for a tail shorter than the alignment");
    /* cut independence */
    VASSERT(env_sinks[0].n_in == env_sinks[1].n_in, "same number of units whatever the cutting of the input");
    for (unsigned k = 0; k < env_sinks[0].n_in && k < env_sinks[1].n_in; k++)
        VASSERT(sz_p[k] == sz_q[k], "same unit sizes whatever the cutting of the input");
    VASSERT(np == nq, "same octets whatever the cutting of the input");
    for (int i = 0; i < np && i < nq; i++)
        VASSERT(out_p[i] == out_q[i], "same octets whatever the cutting of the input");
#else
    /* aggregate: the accepted buffers, concatenated, each octet once */
    {
        int pos = 0, o = 0;
        for (unsigned i = 0; i < sizeof(cut_a) / sizeof(cut_a[0]); i++) {
            int sz = cut_a[i] >= 100 ? cut_a[i] / 100 + cut_a[i] % 100 : cut_a[i];
            if (sz > 0 && sz <= MTU)
                for (int j = 0; j < sz; j++) {
                    VASSERT(o < np && out_p[o] == stream[pos + j], "aggregate outputs every accepted octet once, in order");
                    o++;
                }
            pos += sz;
        }
        VASSERT(o == np && np == acc_p, "aggregate outputs nothing else");
        (void)nq; (void)acc_q; (void)sz_q; (void)out_q;
    }
#endif
#ifdef WITNESS
    VASSUME(env_sinks[0].n_in >= 1);
#endif
    VWITNESS();
    env_sinks_done();
    env_done();
    return 0;
}
