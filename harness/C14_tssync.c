/* C14 (TS synchronisation): lib/upipe-ts/upipe_ts_sync.c + upipe_helper_uref_stream.h / helper_sync / helper_output /
 * helper_output_size over the real block manager (TS_SIZE comes from shim/include/bitstream/mpeg/ts.h; the packet size
 * is then configured to SIZE octets through the pipe's own set_output_size, the sync count to NSYNC).
 * Discrete selectors (driver): PATTERN -- which octets of the NB-octet stream are the sync word 0x47 -- SIZE, NSYNC and the
 * two cuttings CUT_A / CUT_B (buffer sizes; entries >= 100 are two-segment buffers).  Symbolic: every non-sync octet
 * (any value but 0x47).  Instance P gets cutting A, instance Q cutting B; both are then released (which flushes).
 *  - the units are exactly those of a reference synchroniser (concrete, in this harness): SIZE octets each, starting
 *    with the sync word, stream[p .. p+SIZE) for the positions p where NSYNC sync words stand one packet apart (and
 *    the synchronised tail at release) -- only input octets, in order, without overlap
 *  - P and Q output the same units: the output depends on the octet stream only, not on its cutting
 *  - release terminates (unwinding assertions) */
#include "pipe_env.h"
#include "upipe-ts/upipe_ts_sync.h"
#include "lib/upipe-ts/upipe_ts_sync.c"

static const int pattern[] = { PATTERN };
#define NB ((int)(sizeof(pattern) / sizeof(pattern[0])))
static uint8_t stream[sizeof(pattern) / sizeof(pattern[0])];
static int nout[2];

static struct upipe *mk(struct upipe_mgr *mgr, struct env_sink *sink)
{
    struct upipe *p = upipe_void_alloc(mgr, uprobe_use(&env_probe));
    VASSUME(p != NULL);
    VASSERT(ubase_check(upipe_set_output_size(p, SIZE)), "harness: packet size accepted");
    VASSERT(ubase_check(upipe_ts_sync_set_sync(p, NSYNC)), "harness: sync count accepted");
    struct uref *fd = env_flow_def("block.");
    VASSERT(ubase_check(upipe_set_flow_def(p, fd)), "harness: flow definition accepted");
    uref_free(fd);
    VASSERT(ubase_check(upipe_set_output(p, &sink->upipe)), "harness: output connected");
    return p;
}
static void feed(struct upipe *p, const int *cut, int ncut)
{
    int pos = 0;
    for (int i = 0; i < ncut; i++) {
        int size = cut[i] >= 100 ? cut[i] / 100 + cut[i] % 100 : cut[i];
        struct uref *u;
        if (cut[i] >= 100) {
            u = env_block_uref(&stream[pos], cut[i] / 100);
            struct uref *t = env_block_uref(&stream[pos + cut[i] / 100], cut[i] % 100);
            struct ubuf *tail = uref_detach_ubuf(t);
            uref_free(t);
            VASSERT(ubase_check(uref_block_append(u, tail)), "harness: segmented buffer built");
        } else
            u = env_block_uref(&stream[pos], size);
        upipe_input(p, u, NULL);
        pos += size;
    }
    VASSERT(pos == NB, "harness: cutting covers the stream");
}
/* reference model of the synchroniser (ISO 13818-1 has no normative algorithm; this is the documented behaviour: look
 * for NSYNC sync words one packet apart, drop what precedes them, output the packet; decide only when all NSYNC positions
 * are available; at release, while synchronised, output the packets that still start with a sync word).
 * All concrete: pattern, sizes and cutting are discrete selectors. */
static int model(const int *cut, int ncut, int *out)
{
    int n = 0, pos = 0, avail = 0;
    bool acquired = false;
    for (int c = 0; c <= ncut; c++) {
        if (c < ncut)
            avail += cut[c] >= 100 ? cut[c] / 100 + cut[c] % 100 : cut[c];
        else {                                  /* release: flush */
            while (acquired && avail - pos >= SIZE && pattern[pos]) {
                out[n++] = pos;
                pos += SIZE;
            }
            break;
        }
        while (pos < avail) {
            int q = pos;
            bool ret = false;
            for (;;) {
                while (q < avail && !pattern[q])
                    q++;
                if (q >= avail)
                    break;                      /* no sync word: everything is garbage */
                int k = NSYNC - 1, off = q + SIZE;
                bool wait = false;
                for (; k; k--, off += SIZE) {
                    if (off >= avail) {
                        wait = true;
                        break;
                    }
                    if (!pattern[off]) {
                        q++;
                        break;
                    }
                }
                if (wait)
                    break;
                if (!k) {
                    ret = true;
                    break;
                }
            }
            if (q != pos) {
                acquired = false;
                pos = q;
            }
            if (!ret)
                break;
            acquired = true;
            out[n++] = pos;
            pos += SIZE;
        }
    }
    return n;
}
/* the units the sink received against the model's positions: size, sync word, octets */
static void collect(int w, const int *exp, int nexp)
{
    struct env_sink *s = &env_sinks[w];
    VASSERT((int)s->n_in == nexp, "the synchroniser outputs exactly the packets that start where the configured number of sync words stand one packet apart (and the synchronised tail at release)");
    for (unsigned k = 0; k < s->n_in && (int)k < nexp; k++) {
        uint8_t b[SIZE + 2];
        int l = env_sink_read(s, k, b, SIZE + 1);
        VASSERT(l == SIZE, "TS units are whole packets of the configured size");
        VASSERT(b[0] == 0x47, "TS units start with the sync byte");
        for (int i = 0; i < SIZE; i++)
            VASSERT(b[i] == stream[exp[k] + i], "outputs are the input octets of the expected packet, in order and without overlap");
    }
    nout[w] = (int)s->n_in;
}

int main(void)
{
    static const int cut_a[] = { CUT_A };
    static const int cut_b[] = { CUT_B };
    env_init();
    env_probe_init();
    env_sinks_init();
    for (int i = 0; i < NB; i++) {
#ifdef SYMBOLIC_OCTETS
        stream[i] = pattern[i] ? 0x47 : (uint8_t)(nd_u8() & 0xb8);     /* any of 32 values, none of them the sync word */
#else
        stream[i] = pattern[i] ? 0x47 : (uint8_t)(0x80 + i);           /* position-coded */
#endif
    }
    struct upipe_mgr *mgr = upipe_ts_sync_mgr_alloc();
    struct upipe *P = mk(mgr, &env_sinks[0]);
    struct upipe *Q = mk(mgr, &env_sinks[1]);
    int exp_a[ENV_MAXIN + 4], exp_b[ENV_MAXIN + 4];
    int na = model(cut_a, sizeof(cut_a) / sizeof(cut_a[0]), exp_a), nb = model(cut_b, sizeof(cut_b) / sizeof(cut_b[0]), exp_b);
    VASSERT(na <= ENV_MAXIN && nb <= ENV_MAXIN, "harness capacity: units");
    feed(P, cut_a, sizeof(cut_a) / sizeof(cut_a[0]));
    feed(Q, cut_b, sizeof(cut_b) / sizeof(cut_b[0]));
    upipe_release(P);       /* releasing flushes what is pending: must terminate */
    upipe_release(Q);
    collect(0, exp_a, na);
    collect(1, exp_b, nb);
    /* the stream parsers' output depends on the octet stream only */
    VASSERT(env_sinks[0].n_in == env_sinks[1].n_in, "same number of units whatever the cutting of the input");
    for (unsigned k = 0; k < env_sinks[0].n_in && k < env_sinks[1].n_in; k++) {
        uint8_t x[SIZE + 2], y[SIZE + 2];
        env_sink_read(&env_sinks[0], k, x, SIZE + 1);
        env_sink_read(&env_sinks[1], k, y, SIZE + 1);
        for (int i = 0; i < SIZE; i++)
            VASSERT(x[i] == y[i], "same units whatever the cutting of the input");
    }
#ifdef WITNESS
    VASSUME(nout[0] >= WITNESS_UNITS);
#endif
    VWITNESS();
    env_sinks_done();
    env_done();
    return 0;
}
