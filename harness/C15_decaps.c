/* C15 (decapsulation side): lib/upipe-ts/upipe_ts_decaps.c on ARBITRARY 188-octet packets.
 * Real code: upipe_ts_decaps.c (+ helper_output) over the real block manager; header / adaptation-field accessors and
 * the two continuity-counter predicates come from shim/include/bitstream/mpeg/ts.h (external library, absent here).
 * NPKT packets (1 or 2); octets 3 and 4 (adaptation_field_control, continuity counter, adaptation field length) are
 * enumerated by the driver, the other 10 of the first 12 octets (sync, flags, PID, adaptation flags, PCR) and the last 4 octets are symbolic,
 * the rest is a position-coded pattern.  A reference parser in this harness (ISO 13818-1 2.4.3.2-2.4.3.5) says, per packet:
 *   dropped (no payload flag, or adaptation field length impossible: > 183, or != 183 without payload; or a duplicate
 *   of the previous payload-carrying packet), or delivered with payload = the octets after header and adaptation field,
 *   unit-start / transport-error / random-access markers as in the packet, discontinuity flagged iff first packet,
 *   adaptation field says so, or the continuity counter does not follow (a duplicate counter with different payload
 *   counts as 16 lost packets).
 * Memory: the packet is an exact-size block: any read outside it is a CBMC bounds failure (ASan natively). */
#include "pipe_env.h"
#include "upipe/uref_block.h"
#include "upipe/uref_flow.h"
#include "upipe/uref_clock.h"
#include "lib/upipe-ts/upipe_ts_decaps.c"

#ifndef NPKT
#define NPKT 1
#endif
#ifndef B3_1
#define B3_1 0x10
#endif
#define TS 188
static uint8_t pkt[2][TS];

struct parsed { bool drop_invalid, has_payload, has_adapt, unitstart, error, random, af_disc, pcr; int af_len, off; uint8_t cc; };
static void parse(const uint8_t *p, struct parsed *r)
{
    r->error = (p[1] & 0x80) != 0;
    r->unitstart = (p[1] & 0x40) != 0;
    r->cc = p[3] & 0xf;
    r->has_payload = (p[3] & 0x10) != 0;
    r->has_adapt = (p[3] & 0x20) != 0;
    r->af_len = r->has_adapt ? p[4] : 0;
    r->drop_invalid = r->has_adapt && ((!r->has_payload && r->af_len != 183) || r->af_len > 183);
    r->off = 4 + (r->has_adapt ? r->af_len + 1 : 0);
    r->random = r->has_adapt && r->af_len > 0 && (p[5] & 0x40);
    r->af_disc = r->has_adapt && r->af_len > 0 && (p[5] & 0x80);
    r->pcr = r->has_adapt && r->af_len > 0 && (p[5] & 0x10);
}

int main(void)
{
    env_init();
    env_probe_init();
    env_sinks_init();
    struct upipe_mgr *mgr = upipe_ts_decaps_mgr_alloc();
    struct upipe *P = upipe_void_alloc(mgr, uprobe_use(&env_probe));
    VASSUME(P != NULL);
    struct uref *fd = env_flow_def("block.mpegts.");
    VASSERT(ubase_check(upipe_set_flow_def(P, fd)), "flow definition accepted");
    uref_free(fd);
    VASSERT(ubase_check(upipe_set_output(P, &env_sinks[0].upipe)), "output connected");

    int last_cc = -1;
    int last_out = -1;          /* index of the packet whose payload was delivered last */
    unsigned expect_out = 0, expect_clockref = 0;
    struct env_sink *sk = &env_sinks[0];
    for (int k = 0; k < NPKT; k++) {
        /* symbolic: the 12 octets the parser can look at (header, adaptation field length and flags, PCR) and the last
         * 4 octets of the packet; the rest carries a position-coded pattern (adjacent positions differ), so that any
         * shift of the payload window is visible while the 188-iteration loops stay cheap */
        for (int i = 0; i < TS; i++)
            pkt[k][i] = (i < 12 || i >= TS - 4) ? nd_u8() : (uint8_t)(i * 7 + 3 + 64 * k);
        /* the two octets that decide how much is cut off the packet are discrete selectors (case split by the driver):
         * octet 3 (adaptation_field_control + continuity counter) and octet 4 (adaptation field length / first payload
         * octet).  With symbolic ones every later block operation has a symbolic size (measured: no verdict in 15 min). */
        pkt[k][3] = k == 0 ? B3_0 : B3_1;
#ifdef B4_0
        if (k == 0)
            pkt[k][4] = B4_0;
#endif
#ifdef B4_1
        if (k == 1)
            pkt[k][4] = B4_1;
#endif
#if NPKT > 1 && defined(SAME_PAYLOAD)
        if (k == 1)             /* case split: the second packet repeats the first one's payload octets */
            for (int i = 4; i < TS; i++)
                pkt[1][i] = pkt[0][i];
#endif
        struct parsed r;
        parse(pkt[k], &r);
        unsigned before = sk->n_in;
        upipe_input(P, env_block_uref(pkt[k], TS), NULL);
        if (r.drop_invalid) {
            VASSERT(sk->n_in == before, "a packet whose adaptation field length is impossible is dropped");
            continue;
        }
        if (r.pcr)
            expect_clockref++;
        bool disc = last_cc == -1 || r.af_disc;
        bool duplicate = last_cc != -1 && r.cc == (uint8_t)last_cc;
        bool deliver = r.has_payload;
        if (duplicate && r.has_payload) {
            bool same = last_out >= 0;
            if (same) {
                struct parsed q;
                parse(pkt[last_out], &q);
                /* "same payload" as the code defines it: the previous payload is a prefix of the new one */
                same = (TS - r.off) >= (TS - q.off);
                for (int i = 0; i < TS - q.off && same; i++)
                    same = pkt[k][r.off + i] == pkt[last_out][q.off + i];
            }
            if (same)
                deliver = false;                            /* duplicate packet removed */
            else
                disc = true;                                /* same counter, other payload: 16 packets lost */
        }
        if (!disc && last_cc != -1 && ((last_cc + 17 - r.cc) % 16) != 0)
            disc = true;                                    /* gap in the continuity counters */
        last_cc = r.cc;
        if (!deliver) {
            VASSERT(sk->n_in == before, "packets without payload, and duplicates, deliver nothing");
            continue;
        }
        VASSERT(sk->n_in == before + 1, "a packet carrying payload delivers exactly one buffer");
        expect_out++;
        last_out = k;
        struct uref *o = sk->in[before];
        size_t size = 0;
        VASSERT(ubase_check(uref_block_size(o, &size)) && (int)size == TS - r.off, "payload = the octets after header and adaptation field");
        uint8_t got[TS];
        if (size > 0)
            VASSERT(ubase_check(uref_block_extract(o, 0, (int)size, got)), "payload readable");
        for (int i = 0; i < TS - r.off; i++)
            VASSERT(got[i] == pkt[k][r.off + i], "payload octets are exactly the carried ones, in order");
        VASSERT(ubase_check(uref_block_get_start(o)) == r.unitstart, "unit-start marker forwarded");
        VASSERT(ubase_check(uref_flow_get_error(o)) == r.error, "transport error marker forwarded");
        VASSERT(ubase_check(uref_flow_get_random(o)) == r.random, "random-access marker forwarded");
        VASSERT(ubase_check(uref_flow_get_discontinuity(o)) == disc, "a gap in the counters (or a flagged one) is marked as a discontinuity, and nothing else is");
    }
    VASSERT(env_count(P, UPROBE_CLOCK_REF) == expect_clockref, "one clock reference event per PCR-carrying packet");
#ifdef WITNESS
    VASSUME(expect_out == NPKT);
#endif
    VWITNESS();
    (void)expect_out;
    upipe_release(P);
    env_sinks_done();
    env_done();
    return 0;
}
