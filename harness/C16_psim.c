/* C16 (merger): PSI sections are reassembled from TS payloads, whatever the cutting.
 * Real code: lib/upipe-ts/upipe_ts_psi_merge.c (+ upipe_helper_sync / output) over the real block manager; the two
 * accessors it takes from the external biTStream library come from shim/include/bitstream/mpeg/psi.h.
 * Discrete selectors (driver): the section body lengths SECTIONS, the cut positions CUTS over the concatenated
 * sections, the stuffing STUFF appended after the last section of the last payload, and the DISRUPT scenario.
 * Symbolic: every body octet (header octets concrete, see below).
 * The harness packs the sections into TS payloads the way ISO 13818-1 2.4.4 prescribes: a payload in which a
 * section starts carries the unit-start flag and a pointer_field counting the octets before that first start.
 * DISRUPT 0: clean stream      -> the sink receives exactly the original sections, in order, each once, complete
 * DISRUPT k: payload k dropped, the following one flagged as a discontinuity
 *                              -> only complete ORIGINAL sections are output, in order, none twice, and every section
 *                                 that starts in or after the first unit start following the gap is output
 * CORRUPT c: section c (1-based) carries an impossible header (long form announced with a length too short to hold
 *            the extended header and CRC); its octets still occupy 3 + body length octets of the stream
 *                              -> the sections before it are output, nothing made of the corrupt octets is, and every
 *                                 section starting in a payload after the one in which the bad header became complete
 *                                 is output (resynchronisation at the next unit start) */
#include "pipe_env.h"
#include "upipe/uref_block.h"
#include "upipe/uref_flow.h"
#include "lib/upipe-ts/upipe_ts_psi_merge.c"

static const int sec_len[] = { SECTIONS };      /* body lengths (section_length field) */
static const int cuts[] = { CUTS };             /* payload k holds stream octets [cuts[k], cuts[k+1]) */
#define NSEC ((int)(sizeof(sec_len) / sizeof(sec_len[0])))
#define NPAY ((int)(sizeof(cuts) / sizeof(cuts[0])) - 1)
#ifndef STUFF
#define STUFF 0
#endif
#ifndef DISRUPT
#define DISRUPT 0
#endif
#ifndef CORRUPT
#define CORRUPT 0
#endif
#define MAXS 24
static uint8_t stream[MAXS];
static int sec_start[8], total;

int main(void)
{
    env_init();
    env_probe_init();
    env_sinks_init();
    /* the sections */
    total = 0;
    for (int s = 0; s < NSEC; s++) {
        sec_start[s] = total;
        /* the three header octets are concrete: the merger branches on them (stuffing test, announced length), and
         * symbolic ones make the shape of every buffer symbolic (measured: no verdict in 300 s); bodies are symbolic */
        stream[total++] = (uint8_t)(0x40 + s);      /* table_id */
        if (CORRUPT != 0 && s == CORRUPT - 1) {
            stream[total++] = 0xb0;                 /* long form announced ... */
            stream[total++] = 0x05;                 /* ... with a length that cannot hold extended header + CRC */
        } else {
        stream[total++] = 0x30;                     /* short form (syntax indicator 0), reserved bits, length high bits 0 */
        stream[total++] = (uint8_t)sec_len[s];
        }
        for (int i = 0; i < sec_len[s]; i++)
            stream[total++] = nd_u8();
    }
    sec_start[NSEC] = total;
#ifdef FF_AT    /* a body octet that is concretely 0xff (the stuffing value) -- placed by the driver at a cut position */
    {
        bool body = false;
        for (int s = 0; s < NSEC; s++)
            body = body || (FF_AT >= sec_start[s] + 3 && FF_AT < sec_start[s + 1]);
        VASSERT(body, "harness: FF_AT addresses a body octet");
        stream[FF_AT] = 0xff;
    }
#endif
    VASSERT(cuts[NPAY] == total && cuts[0] == 0, "harness: cuts cover the stream");

    struct upipe_mgr *mgr = upipe_ts_psim_mgr_alloc();
    struct upipe *P = upipe_void_alloc(mgr, uprobe_use(&env_probe));
    VASSUME(P != NULL);
    struct uref *fd = env_flow_def("block.mpegtspsi.");
    VASSERT(ubase_check(upipe_set_flow_def(P, fd)), "flow definition accepted");
    uref_free(fd);
    VASSERT(ubase_check(upipe_set_output(P, &env_sinks[0].upipe)), "output connected");

    for (int k = 0; k < NPAY; k++) {
        int a = cuts[k], b = cuts[k + 1];
        int ps = -1;                                /* first section starting inside [a, b) */
        for (int s = 0; s < NSEC; s++)
            if (sec_start[s] >= a && sec_start[s] < b && ps < 0)
                ps = s;
        uint8_t pay[MAXS + 8];
        int n = 0;
        if (ps >= 0)
            pay[n++] = (uint8_t)(sec_start[ps] - a);        /* pointer_field */
        for (int i = a; i < b; i++)
            pay[n++] = stream[i];
        if (k == NPAY - 1)
            for (int i = 0; i < STUFF; i++)
                pay[n++] = 0xff;
        if (DISRUPT != 0 && k == DISRUPT - 1)
            continue;                               /* this payload is lost */
        struct uref *u = env_block_uref(pay, n);
        if (ps >= 0)
            uref_block_set_start(u);
        if (DISRUPT != 0 && k == DISRUPT)
            uref_flow_set_discontinuity(u);         /* the demultiplexer flags the gap on the next payload */
        upipe_input(P, u, NULL);
    }
    /* which sections MUST come out: all of them on a clean stream; with a gap, those entirely transmitted before the
     * lost payload and those starting at or after the first unit start that follows the gap */
    bool must[8];
    {
        int resync = NSEC;
        for (int k = DISRUPT; DISRUPT != 0 && k < NPAY && resync == NSEC; k++)
            for (int s = 0; s < NSEC; s++)
                if (sec_start[s] >= cuts[k] && sec_start[s] < cuts[k + 1] && resync == NSEC)
                    resync = s;
        for (int s = 0; s < NSEC; s++)
            must[s] = DISRUPT == 0 || sec_start[s + 1] <= cuts[DISRUPT - 1] || s >= resync;
        if (CORRUPT != 0) {
            int j = 0;                              /* payload in which the bad header becomes complete */
            while (j < NPAY && cuts[j + 1] <= sec_start[CORRUPT - 1] + 2)
                j++;
            for (int s = 0; s < NSEC; s++)
                must[s] = s < CORRUPT - 1 || (s > CORRUPT - 1 && j + 1 < NPAY && sec_start[s] >= cuts[j + 1]);
        }
    }
    upipe_release(P);

    /* oracle: every output is an original section, complete and unmodified, in stream order, none twice; every
     * section that must come out did */
    struct env_sink *sk = &env_sinks[0];
    bool matched[8] = { false };
    int last = -1;
    for (unsigned o = 0; o < sk->n_in; o++) {
        uint8_t got[MAXS];
        int l = env_sink_read(sk, o, got, MAXS);
        int hit = -1;
        for (int s = NSEC - 1; s > last; s--) {
            bool same = l == 3 + sec_len[s] && s != CORRUPT - 1;
            for (int i = 0; i < l && i < 3 + sec_len[s]; i++)
                same = same && got[i] == stream[sec_start[s] + i];
            if (same)
                hit = s;
        }
        VASSERT(hit >= 0, "every output is one of the original sections, complete and unmodified, later in the stream than the previous output");
        if (hit >= 0) {
            matched[hit] = true;
            last = hit;
        }
    }
    for (int s = 0; s < NSEC; s++)
        if (must[s])
            VASSERT(matched[s], "every section transmitted completely (before the gap, or from the next unit start on) is output");
    if (DISRUPT == 0 && CORRUPT == 0)
        VASSERT((int)sk->n_in == NSEC, "on a clean stream exactly the original sections are output, each once");
#ifdef WITNESS
    VASSUME(sk->n_in >= 1);
#endif
    VWITNESS();
    env_sinks_done();
    env_done();
    return 0;
}
