/* C17 (the part that is buildable here): H.264/H.265 NAL handling in lib/upipe-framers/upipe_h26x_common.c and
 * include/upipe-framers/uref_h26x.h, over the real block manager, uref_std and udict_inline.
 * MODE_GOLOMB : upipe_h26xf_stream_get (emulation-prevention removal) + upipe_h26xf_stream_ue / _se over a block of
 *   NB symbolic octets cut into two segments at SEG0 (discrete selector), against an independent reference decoder:
 *   strip every 0x03 that follows two zero octets, count leading zero bits, read the suffix.
 * MODE_CONVERT: upipe_h26xf_convert_frame ENC_A -> ENC_B -> ENC_A on a frame of NNAL NAL units with symbolic payload
 *   octets (sizes are discrete selectors): after A->B the frame is the B encapsulation of the same payloads in the
 *   same order and the NAL offset attributes point at the units; after B->A the original octets are back when A
 *   uses 4-octet start codes or length prefixes. */
#define ENV_FORMAT_NAMES 1
#include "pipe_env.h"
#include "upipe/ubuf_block_stream.h"
#include "upipe-framers/uref_h26x.h"
#include "upipe-framers/uref_h26x_flow.h"
#include "upipe-framers/upipe_h26x_common.h"
#include "lib/upipe-framers/upipe_h26x_common.c"

#if defined(MODE_EPB) && !defined(MODE_GOLOMB)
#define MODE_GOLOMB 1
#define MAXLZ 0
#endif
#if defined(MODE_GOLOMB)
#ifndef NB
#define NB 6
#endif
static uint8_t raw[NB + 3];
static uint8_t clean[NB + 3];
static int nclean;
static unsigned ref_bit(unsigned p)
{
    return (clean[p >> 3] >> (7 - (p & 7))) & 1u;
}
int main(void)
{
    env_init();
    for (int i = 0; i < NB; i++)
        raw[i] = nd_u8();
    raw[NB] = raw[NB + 1] = raw[NB + 2] = 0xff;     /* padding: a 1 bit always terminates the prefix inside the block */
#ifdef LONGCODE
    /* long code words (LONGCODE = 24..31 leading zero bits, values >= 2^24 - 1): the prefix is concrete -- three zero
     * octets, which an encoder must write as 00 00 03 00 -- then (LONGCODE - 24) zero bits and the terminating 1; the
     * rest of that octet and the following octets (where further escapes may fall) are symbolic */
    raw[0] = 0; raw[1] = 0; raw[2] = 3; raw[3] = 0;
#ifdef B4       /* the octet holding the end of the prefix is a discrete selector: symbolic low bits make the prefix
                 * loops of the reader symbolic (measured: out of memory at 23 GB) */
    raw[4] = B4;
    VASSERT((raw[4] >> (7 - (LONGCODE - 24))) == 1, "harness: selector octet carries the end of the prefix");
#else
    raw[4] = (uint8_t)(1u << (7 - (LONGCODE - 24)));
#endif
#endif
    /* reference: remove emulation prevention octets */
    int zeros = 0;
    nclean = 0;
    for (int i = 0; i < NB + 3; i++) {
        if (zeros >= 2 && raw[i] == 3) {
            zeros = 0;
            continue;
        }
        zeros = raw[i] == 0 ? zeros + 1 : 0;
        clean[nclean++] = raw[i];
    }
    /* the block: two segments */
    struct ubuf *u = ubuf_block_alloc_from_opaque(env_block_mgr, raw, SEG0);
    struct ubuf *v = ubuf_block_alloc_from_opaque(env_block_mgr, raw + SEG0, NB + 3 - SEG0);
    VASSUME(u != NULL && v != NULL);
    VASSERT(ubase_check(ubuf_block_append(u, v)), "append succeeds");
#ifdef MODE_EPB
    /* emulation prevention removal alone: the octets delivered by upipe_h26xf_stream_get are the stream with every
     * 0x03 that follows two zero octets removed (code words long enough to contain one need >= 16 leading zeros,
     * beyond the exp-Golomb bound of this harness) */
    {
        struct upipe_h26xf_stream f;
        upipe_h26xf_stream_init(&f);
        VASSERT(ubase_check(ubuf_block_stream_init(&f.s, u, 0)), "stream init succeeds");
        for (int i = 0; i < nclean; i++) {
            uint8_t o = 0x55;
            VASSERT(ubase_check(upipe_h26xf_stream_get(&f.s, &o)), "octets available while the stream lasts");
            VASSERT(o == clean[i], "stream_get delivers the octets with emulation prevention octets removed");
        }
        ubuf_block_stream_clean(&f.s);
#ifdef WITNESS
        VASSUME(nclean <= NB + 1);      /* two escapes removed */
#endif
        VWITNESS();
        ubuf_free(u);
        env_done();
        return 0;
    }
#endif
    /* reference decoding of one ue(v) starting at bit 0 */
    unsigned lz = 0;
    while (lz <= MAXLZ && lz < (unsigned)nclean * 8 && !ref_bit(lz))
        lz++;
    VASSUME(lz <= MAXLZ);                           /* stated bound: code words of up to 2*MAXLZ+1 bits */
    VASSUME(2 * lz + 1 <= (unsigned)(nclean - 3) * 8);     /* the code word ends inside the symbolic octets */
    uint32_t suffix = 0;
    for (unsigned k = 0; k < lz; k++)
        suffix = (suffix << 1) | ref_bit(lz + 1 + k);
    uint32_t expect = (lz == 0 ? 0 : ((1u << lz) - 1)) + suffix;
    struct upipe_h26xf_stream f;
    upipe_h26xf_stream_init(&f);
    VASSERT(ubase_check(ubuf_block_stream_init(&f.s, u, 0)), "stream init succeeds");
#ifdef SIGNED
    int32_t got = upipe_h26xf_stream_se(&f.s);
    int32_t want = (expect & 1) ? (int32_t)((expect + 1) / 2) : -(int32_t)(expect / 2);
    VASSERT(got == want, "se(v): the signed exp-Golomb value a reference decoder reads");
#else
    uint32_t got = upipe_h26xf_stream_ue(&f.s);
    VASSERT(got == expect, "ue(v): the exp-Golomb value a reference decoder reads, emulation prevention octets removed");
#endif
    VASSERT(!f.s.overflow, "no overflow while the code word lies inside the block");
    ubuf_block_stream_clean(&f.s);
#ifdef WITNESS
    VASSUME(lz >= 2);       /* a code word of >= 5 bits */
#endif
    VWITNESS();
    ubuf_free(u);
    env_done();
    return 0;
}
#else
/* ---------------------------------------------------------------- MODE_CONVERT */
static const int nal_size[] = { NAL_SIZES };
#define NNAL ((int)(sizeof(nal_size) / sizeof(nal_size[0])))
#define MAXF 40
static uint8_t payload[4][4];

static int encaps_size(int enc)
{
    switch (enc) {
        case UREF_H26X_ENCAPS_NALU: return 0;
        case UREF_H26X_ENCAPS_ANNEXB: return 4;
        case UREF_H26X_ENCAPS_LENGTH1: return 1;
        case UREF_H26X_ENCAPS_LENGTH2: return 2;
        default: return 4;
    }
}
/* reference serialisation of the frame in encapsulation enc; returns length, fills offsets of each unit */
static int ref_frame(int enc, uint8_t *out, int *unit_off)
{
    int n = 0;
    for (int k = 0; k < NNAL; k++) {
        unit_off[k] = n;
        int s = nal_size[k];
        switch (enc) {
            case UREF_H26X_ENCAPS_ANNEXB: out[n++] = 0; out[n++] = 0; out[n++] = 0; out[n++] = 1; break;
            case UREF_H26X_ENCAPS_LENGTH1: out[n++] = (uint8_t)s; break;
            case UREF_H26X_ENCAPS_LENGTH2: out[n++] = 0; out[n++] = (uint8_t)s; break;
            case UREF_H26X_ENCAPS_LENGTH4: out[n++] = 0; out[n++] = 0; out[n++] = 0; out[n++] = (uint8_t)s; break;
            default: break;
        }
        for (int i = 0; i < s; i++)
            out[n++] = payload[k][i];
    }
    return n;
}
static void check_frame(struct uref *uref, int enc)
{
    uint8_t want[MAXF], got[MAXF];
    int off[4];
    int n = ref_frame(enc, want, off);
    size_t size = 0;
    VASSERT(ubase_check(uref_block_size(uref, &size)) && (int)size == n, "frame size = sum of (encapsulation + payload) of every NAL unit");
    VASSERT(ubase_check(uref_block_extract(uref, 0, n, got)), "frame readable");
    for (int i = 0; i < n; i++)
        VASSERT(got[i] == want[i], "frame octets = every NAL unit's payload, in order, in the expected encapsulation (A->B; and A->B->A reproduces the original)");
    /* NAL offset attributes: unit k+1 starts at attribute k */
    for (int k = 0; k + 1 < NNAL; k++) {
        uint64_t o = 0;
        VASSERT(ubase_check(uref_h26x_get_nal_offset(uref, &o, k)) && (int)o == off[k + 1],
                "NAL offset attributes point at the units after conversion");
    }
}

int main(void)
{
    env_init();
    for (int k = 0; k < NNAL; k++)
        for (int i = 0; i < nal_size[k]; i++)
            payload[k][i] = nd_u8();
    uint8_t buf[MAXF];
    int off[4];
    int n = ref_frame(ENC_A, buf, off);
    struct uref *uref = env_block_uref(buf, n);
    for (int k = 0; k + 1 < NNAL; k++)
        VASSERT(ubase_check(uref_h26x_set_nal_offset(uref, off[k + 1], k)), "harness: NAL offsets set");
    struct ubuf *annexb = upipe_h26xf_alloc_annexb(env_block_mgr);
    VASSUME(annexb != NULL);
    check_frame(uref, ENC_A);
    int err = upipe_h26xf_convert_frame(uref, ENC_A, ENC_B, env_block_mgr, annexb);
    VASSERT(ubase_check(err), "conversion between encapsulations succeeds when every unit fits its length prefix");
    check_frame(uref, ENC_B);
    err = upipe_h26xf_convert_frame(uref, ENC_B, ENC_A, env_block_mgr, annexb);
    VASSERT(ubase_check(err), "conversion back succeeds");
    check_frame(uref, ENC_A);
    VWITNESS();
    uref_free(uref);
    ubuf_free(annexb);
    env_done();
    return 0;
}
#endif
