/* C18 part B: the block bit-stream reader over ANY segmentation of the bytes,
 * any start bit offset, vs. a reference bit extractor.  Real ubuf_block_mem.
 *
 * MODE_BASE : init_bits(start) establishes the reader invariant Inv for every start.
 * MODE_STEP : from ANY reader state satisfying Inv (octets consumed C, init offset O are
 *             discrete selectors; cached bit count symbolic), one fill/show/skip of a
 *             symbolic width returns the reference bits, reports running out of data
 *             through overflow, advances the position by the width and re-establishes
 *             Inv.  BASE + STEP = any number of fields (induction on the field count).
 * MODE_SEQ  : NF fields from init_bits, end to end (cross-check of the decomposition).
 * Inv(s): no overflow; P = position(s); (P + available) is the octet-aligned count of
 *         consumed octets; available <= 31; bits == stream bits [P, P+available) left
 *         aligned with zero low bits.
 * Segmentation (SEG0, SEG1, rest) is a discrete selector; data octets are symbolic. */
#include "blk.h"
#include "upipe/ubuf_block_stream.h"

#ifndef NB
#define NB 4       /* total octets */
#endif
#ifndef NF
#define NF 2
#endif

static uint8_t data[NB];

static uint32_t ref_get(unsigned pos, unsigned w, bool *past)
{
    uint32_t v = 0;
    for (unsigned i = 0; i < w; i++) {
        unsigned p = pos + i;
        unsigned bit = 0;
        if (p < NB * 8)
            bit = (data[p >> 3] >> (7 - (p & 7))) & 1u;
        else
            *past = true;
        v = (v << 1) | bit;
    }
    return v;
}

static void check_inv(struct ubuf_block_stream *s, unsigned expected_pos)
{
    VASSERT(!s->overflow, "Inv: no overflow");
    unsigned pos = (unsigned)ubuf_block_stream_position(s);
    VASSERT(pos == expected_pos, "position() counts the bits consumed");
    VASSERT(s->available <= 31, "Inv: at most 31 cached bits");
    VASSERT(((pos + s->available) & 7) == 0, "Inv: cached bits end on an octet boundary");
    VASSERT(pos + s->available <= NB * 8, "Inv: cache holds only stream bits");
    bool past = false;
    uint32_t exp = s->available ? ref_get(pos, s->available, &past) << (32 - s->available) : 0;
    VASSERT(s->bits == exp, "Inv: cache = next stream bits, left aligned, zero below");
}

int main(void)
{
    for (int i = 0; i < NB; i++)
        data[i] = nd_u8();
    unsigned s0 = SEG0, s1 = SEG1;
    unsigned s2 = NB - s0 - s1;
    struct ubuf_mgr *mgr = blk_mgr_new(0, 0, 0, 0);
    struct ubuf *u = blk_new(mgr, data, s0);
    struct ubuf *b = blk_new(mgr, data + s0, s1);
    struct ubuf *c = blk_new(mgr, data + s0 + s1, s2);
    VASSERT(ubase_check(ubuf_block_append(u, b)), "append");
    VASSERT(ubase_check(ubuf_block_append(u, c)), "append");
    struct ubuf_block_stream s;

#if defined(MODE_BASE)
    unsigned start = START_BYTE * 8 + nd_range(0, 7);
    int err = ubuf_block_stream_init_bits(&s, u, start);
    VASSERT(err == UBASE_ERR_NONE, "init at a bit offset inside the block succeeds");
    check_inv(&s, start);
#ifdef WITNESS
    VASSUME((start & 7) != 0);
#endif
#elif defined(MODE_STEP)
    /* reach the representation of "O = init offset, C octets consumed" with real calls */
    int err = ubuf_block_stream_init(&s, u, OFF_O);
    VASSERT(err == UBASE_ERR_NONE, "init");
    for (int i = OFF_O; i < OFF_C; i++) {
        uint8_t o;
        err = ubuf_block_stream_get(&s, &o);
        VASSERT(err == UBASE_ERR_NONE && o == data[i], "octet reader returns the stream octets in order");
    }
    unsigned a = nd_range(0, 31);
    VASSUME(a <= 8 * (OFF_C - OFF_O));
    bool past = false;
    unsigned P = OFF_C * 8 - a;
    s.available = a;
    s.bits = a ? ref_get(P, a, &past) << (32 - a) : 0;
    check_inv(&s, P);     /* the constructed state satisfies Inv (sanity of the construction) */
    unsigned w = nd_range(1, 24);
    uint32_t exp = ref_get(P, w, &past);
    ubuf_block_stream_fill_bits(&s, w);
    uint32_t got = ubuf_block_stream_show_bits(&s, w);
    ubuf_block_stream_skip_bits(&s, w);
    if (!past) {
        VASSERT(got == exp, "block stream reader returns the bits of the byte string");
        check_inv(&s, P + w);
    } else
        VASSERT(s.overflow, "running out of data is reported through overflow");
#ifdef WITNESS
    VASSUME(!past && a > 0 && w > a);
#endif
#else /* MODE_SEQ */
    unsigned start = nd_range(0, NB * 8 - 1);
    int err = ubuf_block_stream_init_bits(&s, u, start);
    VASSERT(err == UBASE_ERR_NONE, "init at a bit offset inside the block succeeds");
    unsigned pos = start;
    bool past = false;
    for (int i = 0; i < NF; i++) {
        unsigned w = nd_range(1, 24);
        uint32_t exp = ref_get(pos, w, &past);
        ubuf_block_stream_fill_bits(&s, w);
        uint32_t got = ubuf_block_stream_show_bits(&s, w);
        ubuf_block_stream_skip_bits(&s, w);
        pos += w;
        if (!past) {
            VASSERT(got == exp, "block stream reader returns the bits of the byte string");
            VASSERT(!s.overflow, "no overflow indication while data remain");
        } else
            VASSERT(s.overflow, "running out of data is reported through overflow");
    }
#ifdef WITNESS
    VASSUME(!past && (start & 7) != 0 && pos > start + 8);
#endif
#endif
    VWITNESS();
    ubuf_block_stream_clean(&s);
    ubuf_free(u);
    blk_mgr_done(mgr);
    blk_umem_done();
    return 0;
}
