/* C18 part A: ubits writer/reader vs an independent MSB-first reference packer.
 * Symbolic: NF fields (width 1..32, value < 2^width), buffer size 0..BUFMAX.
 * The buffer is an exact-size heap object: any access outside it is a CBMC
 * pointer-check failure (and an ASan failure natively). */
#include <stdlib.h>
#include <assert.h>
#include "nd.h"
#include "upipe/ubits.h"

#ifndef NF
#define NF 3
#endif
#ifndef BUFSZ
#define BUFSZ (NF * 4)   /* buffer size in octets: a discrete selector, case-split by the driver */
#endif

static unsigned w[NF];
static uint32_t v[NF];
static unsigned cum[NF + 1];
/* reference: bit p (MSB first) of the concatenation of the fields; 0 in the padding */
static unsigned ref_bit(unsigned p)
{
    for (int i = 0; i < NF; i++)
        if (p >= cum[i] && p < cum[i + 1])
            return (v[i] >> (cum[i + 1] - 1 - p)) & 1u;
    return 0;
}
static uint8_t ref_byte(unsigned k)
{
    unsigned b = 0;
    for (unsigned j = 0; j < 8; j++)
        b = (b << 1) | ref_bit(k * 8 + j);
    return (uint8_t)b;
}

int main(void)
{
    unsigned total = 0;
    cum[0] = 0;
    for (int i = 0; i < NF; i++) {
        w[i] = nd_range(1, 32);
        v[i] = nd_u32();
        VASSUME(w[i] == 32 || v[i] < (1u << w[i]));
#ifdef KF_EXCLUDE_C18_PUT32
        VASSUME(!(w[i] == 32 && (total % 32) == 0 && total > 0));
#endif
        total += w[i];
        cum[i + 1] = total;
    }
    unsigned need = (total + 7) / 8;
    unsigned size = BUFSZ;
    uint8_t *buf = malloc(BUFSZ + (BUFSZ == 0));   /* exact-size object (1 octet, never to be touched, for size 0) */
    VASSUME(buf != NULL);

    struct ubits s;
    ubits_init(&s, buf, size, UBITS_WRITE);
    for (int i = 0; i < NF; i++)
        ubits_put(&s, (uint8_t)w[i], v[i]);
    uint8_t *end = NULL;
    int err = ubits_clean(&s, &end);

    if (need <= size) {
        VASSERT(err == UBASE_ERR_NONE, "enough room: writer reports success");
        VASSERT((unsigned)(end - buf) == need, "bytes produced = total width rounded up to a byte");
        for (unsigned i = 0; i < need; i++)
            VASSERT(buf[i] == ref_byte(i), "written bytes equal the reference packer's");
        /* read back with the bit reader over exactly the produced bytes */
        struct ubits r;
        ubits_init(&r, buf, need, UBITS_READ);
        for (int i = 0; i < NF; i++) {
            uint32_t got = ubits_get(&r, (uint8_t)w[i]);
            VASSERT(got == v[i], "bit reader returns the written value");
        }
        VASSERT(!r.overflow, "no overflow while data remain");
        /* one more field that needs data beyond the buffer: must be reported */
        unsigned pad = need * 8 - total;
        unsigned extra = nd_range(1, 32);
        VASSUME(extra > pad);
        (void)ubits_get(&r, (uint8_t)extra);
        VASSERT(r.overflow, "reading past the end is reported through overflow");
    } else {
        VASSERT(err != UBASE_ERR_NONE, "too small a buffer is reported");
    }
#ifdef WITNESS
    VASSUME(need <= size && total > (NF - 1) * 16);
#endif
    VWITNESS();
    free(buf);
    return 0;
}
