/* C19: picture windows stay inside the allocation and keep their content.
 * Real code: lib/upipe/ubuf_pic_common.c (plane lookup, plane_map, check_size / check_skip, resize, dup),
 * lib/upipe/ubuf_pic_mem.c (allocation sizing, strides, plane origins, alignment), ubuf_pic.h wrappers.
 * Discrete selectors (driver): the format (MACROPIXEL and the planes P(chroma, hsub, vsub, macropixel_size)), the
 * manager margins / alignment, the picture size HS x VS -- these are the divisors and strides of the address
 * arithmetic, kept constant so that the solver multiplies by constants only.  Symbolic: the window
 * (hoffset, voffset, hsize, vsize as ints in [-RANGE, RANGE]), the plane index, the resize arguments, two pixel
 * coordinates.  No pixel is written: "content is preserved" is decided on ADDRESSES.
 * MODE_WINDOW : an accepted window lies inside the memory of its plane (first and last octet of its first and last
 *               line), windows that are not multiples of the granularity or exceed the picture are refused
 * MODE_INJECT : two distinct in-range pixels of a plane never alias, and pixels of different planes never alias
 * MODE_RESIZE : after an accepted resize (crop or extension into the margins) every pixel that stays visible keeps
 *               its address; a refused resize changes nothing; a duplicate sees the same addresses */
#include "nd.h"
#ifndef VERIF_REPLAY
#include <stdarg.h>
#include <stdio.h>
int vsnprintf(char *str, size_t size, const char *format, va_list ap) { (void)format; (void)ap; if (str && size) str[0] = 0; return 0; }
#endif
#include "lib/upipe/umem_alloc.c"
#include "lib/upipe/ubuf_mem_common.c"
#include "lib/upipe/ubuf_pic_common.c"
#include "lib/upipe/ubuf_pic_mem.c"
#include "upipe/ubuf_pic.h"

#ifndef RANGE
#define RANGE 40
#endif
struct pl { const char *chroma; int hsub, vsub, mps; };
#define P(c, h, v, m) { c, h, v, m },
static const struct pl planes[] = { PLANES };
#define NPL ((int)(sizeof(planes) / sizeof(planes[0])))

static struct ubuf_mgr *mgr;
static struct umem_mgr *umem_mgr;

static int nd_arg(void)
{
    int v = nd_int();
    VASSUME(v >= -RANGE && v <= RANGE);
    return v;
}
/* model: is (off, size) an in-range, well-aligned request on a dimension of `full` pixels with granularity g?
 * returns 1 valid, 0 invalid (must be refused), -1 unspecified form */
static int classify(int off, int size, int full, int g, int *o_out, int *s_out)
{
    int o = off < 0 ? off + full : off;
    int s = size == -1 ? full - o : size;
    *o_out = o;
    *s_out = s;
    if (size < -1)
        return -1;
    if (o < 0 || o > full || s < 0 || o + s > full)
        return 0;
    if (o % g || s % g)
        return 0;
    return 1;
}
static uint8_t *base_of(struct ubuf *u, size_t *size)
{
    struct ubuf_pic_mem *pm = ubuf_pic_mem_from_ubuf(u);
    *size = ubuf_mem_shared_size(pm->shared);
    return ubuf_mem_shared_buffer(pm->shared);
}
static uint8_t *addr(struct ubuf *u, int p, int x, int y)
{
    const uint8_t *a = NULL;
    int err = ubuf_pic_plane_read(u, planes[p].chroma, x, y, MACROPIXEL * planes[p].hsub, planes[p].vsub, &a);
    VASSERT(ubase_check(err) && a != NULL, "a single in-range, aligned macropixel can be mapped");
    ubuf_pic_plane_unmap(u, planes[p].chroma, x, y, MACROPIXEL * planes[p].hsub, planes[p].vsub);
    return (uint8_t *)a;
}

int main(void)
{
    umem_mgr = umem_alloc_mgr_alloc();
    VASSUME(umem_mgr != NULL);
    mgr = ubuf_pic_mem_mgr_alloc(0, 0, umem_mgr, MACROPIXEL, HMPRE * MACROPIXEL, HMAPP * MACROPIXEL, VPRE, VAPP, ALIGN, ALIGN_HMOFF);
    VASSUME(mgr != NULL);
    for (int p = 0; p < NPL; p++)
        VASSERT(ubase_check(ubuf_pic_mem_mgr_add_plane(mgr, planes[p].chroma, planes[p].hsub, planes[p].vsub, planes[p].mps)), "plane added");
    struct urefcount *rc_u = umem_mgr->refcount, *rc_m = mgr->refcount;
    umem_mgr->refcount = NULL;
    mgr->refcount = NULL;
    struct ubuf *u = ubuf_pic_alloc(mgr, HS, VS);
    VASSERT(u != NULL, "a picture whose size respects the granularity can be allocated");
    size_t total;
    uint8_t *base = base_of(u, &total);
    const int p = PLANE;        /* discrete selector: keeps every divisor of the address arithmetic a constant */
    const int hg = MACROPIXEL * planes[p].hsub, vg = planes[p].vsub;
    bool hit = false;

#if defined(MODE_WINDOW)
    int hoff = nd_arg(), voff = nd_arg(), hsz = nd_arg(), vsz = nd_arg();
    uint8_t *w = NULL;
    int err = ubuf_pic_plane_write(u, planes[p].chroma, hoff, voff, hsz, vsz, &w);
    int ho, hs, vo, vs;
    int ch = classify(hoff, hsz, HS, hg, &ho, &hs), cv = classify(voff, vsz, VS, vg, &vo, &vs);
    if (ch == 1 && cv == 1)
        VASSERT(ubase_check(err), "a window that is aligned on the granularity and inside the picture is accepted");
    if (ch == 0 || cv == 0)
        VASSERT(!ubase_check(err), "a window that is not a multiple of the granularity, or exceeds the picture, is refused");
    if (ubase_check(err)) {
        size_t stride;
        uint8_t hsub, vsub, mps;
        VASSERT(ubase_check(ubuf_pic_plane_size(u, planes[p].chroma, &stride, &hsub, &vsub, &mps)), "plane geometry available");
        /* the octets of the window: lines [0, vs/vsub), each (hs/hg)*mps octets */
        long lines = vs / vg, width = (long)(hs / hg) * mps;
        if (ch == 1 && cv == 1 && lines > 0 && width > 0) {
            uint8_t *first = w, *last = w + (lines - 1) * (long)stride + width - 1;
            VASSERT(first >= base && last < base + total, "the accepted window lies entirely inside the allocated memory");
            /* ... and inside its own plane: before the origin of the next plane */
            struct ubuf_pic_common *c = ubuf_pic_common_from_ubuf(u);
            VASSERT(first >= c->planes[p].buffer, "the window starts at or after its plane's origin");
            if (p + 1 < NPL)
                VASSERT(last < c->planes[p + 1].buffer, "the window ends before the next plane starts");
            first[0] = 1;       /* CBMC bounds check / ASan */
            last[0] = 2;
            hit = lines >= 2 && ho > 0;
        }
        ubuf_pic_plane_unmap(u, planes[p].chroma, hoff, voff, hsz, vsz);
    }
#elif defined(MODE_INJECT)
    int x1 = nd_arg(), y1 = nd_arg(), x2 = nd_arg(), y2 = nd_arg();
    const int q = PLANE2;
    const int hg2 = MACROPIXEL * planes[q].hsub, vg2 = planes[q].vsub;
    VASSUME(x1 >= 0 && x1 < HS && y1 >= 0 && y1 < VS && x1 % hg == 0 && y1 % vg == 0);
    VASSUME(x2 >= 0 && x2 < HS && y2 >= 0 && y2 < VS && x2 % hg2 == 0 && y2 % vg2 == 0);
    uint8_t *a1 = addr(u, p, x1, y1), *a2 = addr(u, q, x2, y2);
    if (p != q || x1 != x2 || y1 != y2) {
        long d = a1 - a2;
        VASSERT(d >= planes[q].mps || -d >= planes[p].mps, "distinct pixels (of one plane or of two planes) never share an octet");
    }
    VASSERT(a1 >= base && a1 + planes[p].mps <= base + total, "every pixel lies inside the allocation");
    hit = p != q || x1 != x2 || y1 != y2;
#else
    /* MODE_RESIZE */
    struct ubuf_pic_common *cm = ubuf_pic_common_from_ubuf(u);
#ifdef CHAIN
    /* first link of a resize chain: any crop / extension (accepted or refused), so that the resize under test starts
     * from an arbitrary reachable window instead of the freshly allocated one */
    {
        int a0 = nd_arg(), a1 = nd_arg(), a2 = nd_arg(), a3 = nd_arg();
        (void)ubuf_pic_resize(u, a0, a1, a2, a3);
    }
#endif
    size_t h0, v0;
    uint8_t mp0;
    ubuf_pic_size(u, &h0, &v0, &mp0);
    int x = nd_arg(), y = nd_arg();
    VASSUME(x >= 0 && x < (int)h0 && y >= 0 && y < (int)v0 && x % hg == 0 && y % vg == 0);
    uint8_t *before = addr(u, p, x, y);
    struct ubuf *d = ubuf_dup(u);
    VASSERT(d != NULL, "dup succeeds");
    VASSERT(addr(d, p, x, y) == before, "a duplicate sees the same memory");
    int hskip = nd_arg(), vskip = nd_arg(), nh = nd_arg(), nv = nd_arg();
    int err = ubuf_pic_resize(u, hskip, vskip, nh, nv);
    size_t h1, v1;
    uint8_t mp1;
    ubuf_pic_size(u, &h1, &v1, &mp1);
    if (!ubase_check(err)) {
        VASSERT(h1 == h0 && v1 == v0, "a refused resize leaves the picture size unchanged");
        VASSERT(addr(u, p, x, y) == before, "a refused resize leaves every pixel where it was");
    } else {
        int enh = nh == -1 ? (int)h0 - hskip : nh, env = nv == -1 ? (int)v0 - vskip : nv;
        VASSERT((int)h1 == enh && (int)v1 == env, "an accepted resize yields the requested size");
        int nx = x - hskip, ny = y - vskip;
        if (nx >= 0 && nx < (int)h1 && ny >= 0 && ny < (int)v1) {
            VASSERT(addr(u, p, nx, ny) == before, "cropping / extending preserves every pixel that stays visible (same address)");
            hit = hskip != 0 && vskip != 0;
        }
        /* the new picture is still inside the allocation: its last pixel */
        if (h1 > 0 && v1 > 0) {
            uint8_t *lastpx = addr(u, p, (int)h1 - hg, (int)v1 - vg);
            VASSERT(lastpx >= base && lastpx + planes[p].mps <= base + total, "a resized picture stays inside the allocation");
            VASSERT(lastpx >= cm->planes[p].buffer, "a resized picture stays inside its plane (start)");
            if (p + 1 < NPL)
                VASSERT(lastpx + planes[p].mps <= cm->planes[p + 1].buffer, "a resized picture stays inside its plane (distinct pixels never alias)");
        }
    }
    VASSERT(addr(d, p, x, y) == before, "resizing one handle does not move the duplicate's pixels");
    ubuf_free(d);
#endif
#ifdef WITNESS
    VASSUME(hit);
#endif
    VWITNESS();
    (void)hit;
    ubuf_free(u);
    mgr->refcount = rc_m;
    umem_mgr->refcount = rc_u;
    ubuf_mgr_release(mgr);
    umem_mgr_release(umem_mgr);
    return 0;
}
