/* C20: getters report what setters stored and do not change the pipe.
 * One generic harness; PIPE selects the real pipe (its .c file is compiled in) and OPT the option.
 *   set(v1) ; get -> g1            accepted  => g1 == v1
 *   set(v2) ; get -> g2            accepted  => g2 == v2 ; rejected => g2 == g1
 * The getter's output variable is pre-loaded with symbolic junk (exposes a getter that READS it).
 * Non-interference (DATA pipes): two instances P and Q get the same configuration and the same
 * input buffer; Q additionally receives getter calls (junk-loaded) before the input.  The two
 * recording sinks must have received the same number of buffers with the same sizes and octets. */
#if PIPE == 5 || PIPE == 6
#define ENV_WITH_UPUMP 1      /* these pipes answer every control command with an error until they have a pump manager */
#endif
#include "pipe_env.h"

#define P_SKIP 1
#define P_CHUNK 2
#define P_DELAY 3
#define P_GENAUX 4
#define P_TIME_LIMIT 5
#define P_RATE_LIMIT 6
#define P_AGG 7
#define P_SETATTR 8
#define P_SETFLOWDEF 9

#if PIPE == P_SKIP
#include "lib/upipe-modules/upipe_skip.c"
#define MGR_ALLOC() upipe_skip_mgr_alloc()
#define FLOW "block."
#define DATA 1
typedef size_t val_t;
#define SET(p, v) upipe_skip_set_offset(p, v)
#define GET(p, vp) upipe_skip_get_offset(p, vp)
#define CONSTRAIN(v) VASSUME((v) <= 6)
#elif PIPE == P_CHUNK
#include "lib/upipe-modules/upipe_chunk_stream.c"
#define MGR_ALLOC() upipe_chunk_stream_mgr_alloc()
#define FLOW "block."
#define DATA 1
typedef struct { unsigned mtu, align; } val_t;
#define SET(p, v) upipe_chunk_stream_set_mtu(p, (v).mtu, (v).align)
#define GET(p, vp) upipe_chunk_stream_get_mtu(p, &(vp)->mtu, &(vp)->align)
#define VAL_STRUCT 1
#define CONSTRAIN(v) VASSUME((v).mtu <= 8 && (v).align <= 8)
/* data path with a concrete configuration: a symbolic mtu makes the shape of every block symbolic */
#define DATA_CFG ((val_t){ 3, 1 })
#elif PIPE == P_DELAY
#include "lib/upipe-modules/upipe_delay.c"
#define MGR_ALLOC() upipe_delay_mgr_alloc()
#define FLOW "block."
#define DATA 1
typedef int64_t val_t;
#define SET(p, v) upipe_delay_set_delay(p, v)
#define GET(p, vp) upipe_delay_get_delay(p, vp)
#define CONSTRAIN(v)
#elif PIPE == P_GENAUX
#include "lib/upipe-modules/upipe_genaux.c"
#define MGR_ALLOC() upipe_genaux_mgr_alloc()
#define FLOW "block."
#define DATA 0
typedef int (*val_t)(struct uref *, uint64_t *);
static int ga0(struct uref *u, uint64_t *p) { (void)u; *p = 0; return UBASE_ERR_NONE; }
static int ga1(struct uref *u, uint64_t *p) { (void)u; *p = 1; return UBASE_ERR_NONE; }
#define SET(p, v) upipe_genaux_set_getattr(p, v)
#define GET(p, vp) upipe_genaux_get_getattr(p, vp)
#define VAL_FNPTR 1
#define CONSTRAIN(v)
#elif PIPE == P_TIME_LIMIT
#include "lib/upipe-modules/upipe_time_limit.c"
#define MGR_ALLOC() upipe_time_limit_mgr_alloc()
#define FLOW "block."
#define DATA 0
typedef uint64_t val_t;
#define SET(p, v) upipe_time_limit_set_limit(p, v)
#define GET(p, vp) upipe_time_limit_get_limit(p, vp)
#define CONSTRAIN(v)
#elif PIPE == P_RATE_LIMIT
#include "lib/upipe-modules/upipe_rate_limit.c"
#define MGR_ALLOC() upipe_rate_limit_mgr_alloc()
#define FLOW "block."
#define DATA 0
typedef uint64_t val_t;
#if OPT == 0
#define SET(p, v) upipe_rate_limit_set_limit(p, v)
#define GET(p, vp) upipe_rate_limit_get_limit(p, vp)
#else
#define SET(p, v) upipe_rate_limit_set_duration(p, v)
#define GET(p, vp) upipe_rate_limit_get_duration(p, vp)
#endif
#define CONSTRAIN(v)
#elif PIPE == P_AGG
#include "lib/upipe-modules/upipe_aggregate.c"
#define MGR_ALLOC() upipe_agg_mgr_alloc()
#define FLOW "block."
#define DATA 1
typedef unsigned int val_t;
#define SET(p, v) upipe_set_output_size(p, v)
#define GET(p, vp) upipe_get_output_size(p, vp)
#define CONSTRAIN(v) VASSUME((v) <= 8)
#define DATA_CFG 3
#elif PIPE == P_SETATTR || PIPE == P_SETFLOWDEF
#if PIPE == P_SETATTR
#include "lib/upipe-modules/upipe_setattr.c"
#define MGR_ALLOC() upipe_setattr_mgr_alloc()
#define SET(p, v) upipe_setattr_set_dict(p, v)
#define GET(p, vp) upipe_setattr_get_dict(p, vp)
#else
#include "lib/upipe-modules/upipe_setflowdef.c"
#define MGR_ALLOC() upipe_setflowdef_mgr_alloc()
#define SET(p, v) upipe_setflowdef_set_dict(p, v)
#define GET(p, vp) upipe_setflowdef_get_dict(p, vp)
#endif
#define FLOW "block."
#define DATA 0
typedef struct uref *val_t;
#define VAL_DICT 1
#define CONSTRAIN(v)
#endif

static bool val_eq(val_t a, val_t b)
{
#if defined(VAL_STRUCT)
    return a.mtu == b.mtu && a.align == b.align;
#elif defined(VAL_DICT)
    if (a == NULL || b == NULL)
        return a == b;
    if (a->udict == NULL || b->udict == NULL)
        return a->udict == b->udict;
    return udict_cmp(a->udict, b->udict) == 0;
#else
    return a == b;
#endif
}
static val_t val_nd(int which)
{
#if defined(VAL_STRUCT)
    val_t v;
    v.mtu = nd_u32();
    v.align = nd_u32();
    CONSTRAIN(v);
    (void)which;
    return v;
#elif defined(VAL_FNPTR)
    (void)which;
    return nd_bool() ? ga0 : ga1;
#elif defined(VAL_DICT)
    /* a dictionary with one small unsigned attribute whose value is symbolic */
    struct uref *d = uref_alloc_control(env_uref_mgr);
    VASSUME(d != NULL);
    VASSERT(ubase_check(uref_attr_set_small_unsigned(d, nd_u8(), UDICT_TYPE_SMALL_UNSIGNED, which ? "x.b" : "x.a")),
            "harness: attribute set");
    return d;
#else
    val_t v = (val_t)nd_u64();
    CONSTRAIN(v);
    (void)which;
    return v;
#endif
}
static val_t val_junk(void)
{
#if defined(VAL_STRUCT)
    val_t v;
    v.mtu = nd_u32();
    v.align = nd_u32();
    return v;
#elif defined(VAL_FNPTR)
    return nd_bool() ? ga1 : (val_t)0;
#elif defined(VAL_DICT)
    return NULL;
#else
    return (val_t)nd_u64();
#endif
}

static struct upipe *mk(struct upipe_mgr *mgr, struct env_sink *sink)
{
    struct upipe *p = upipe_void_alloc(mgr, uprobe_use(&env_probe));
    VASSUME(p != NULL);
    struct uref *fd = env_flow_def(FLOW);
    int err = upipe_set_flow_def(p, fd);
    uref_free(fd);
    VASSERT(ubase_check(err), "harness: flow definition accepted by the pipe");
    VASSERT(ubase_check(upipe_set_output(p, &sink->upipe)), "harness: output connected");
    return p;
}

int main(void)
{
    env_init();
    env_probe_init();
    env_sinks_init();
    struct upipe_mgr *mgr = MGR_ALLOC();
    VASSUME(mgr != NULL);
    struct upipe *P = mk(mgr, &env_sinks[0]);
    bool second_rejected = false;

    /* --- accepted / rejected setters against the getter --- */
    val_t v1 = val_nd(0), v2 = val_nd(1);
    val_t g0 = val_junk(), g1 = val_junk(), g2 = val_junk();
    int eg0 = GET(P, &g0);
    int e1 = SET(P, v1);
    int eg1 = GET(P, &g1);
    if (ubase_check(e1)) {
        VASSERT(ubase_check(eg1), "getter succeeds after an accepted setter");
        VASSERT(val_eq(g1, v1), "getter returns the value that was set");
    } else if (ubase_check(eg0)) {
        VASSERT(ubase_check(eg1) && val_eq(g1, g0), "a rejected setter leaves the previous value in force");
    }
    int e2 = SET(P, v2);
    int eg2 = GET(P, &g2);
    if (ubase_check(e2)) {
        VASSERT(ubase_check(eg2) && val_eq(g2, v2), "getter returns the second value that was set");
    } else {
        second_rejected = true;
        VASSERT(eg2 == eg1, "a rejected setter does not change whether the getter succeeds");
        if (ubase_check(eg1))
            VASSERT(val_eq(g2, g1), "a rejected setter leaves the previous value in force");
    }
    /* the generic pairs of the output helper */
    {
        struct upipe *o = (struct upipe *)(uintptr_t)nd_u64();
        VASSERT(ubase_check(upipe_get_output(P, &o)) && o == &env_sinks[0].upipe, "get_output returns the output that was set");
        struct uref *fd = (struct uref *)(uintptr_t)nd_u64();
        if (ubase_check(upipe_get_flow_def(P, &fd)) && fd != NULL) {
            const char *def = NULL;
            VASSERT(ubase_check(uref_flow_get_def(fd, &def)) && def != NULL, "get_flow_def returns a flow definition");
        }
    }

#if DATA
    /* --- getters never alter what the pipe does next --- */
    struct upipe *Q = mk(mgr, &env_sinks[1]);
#ifdef DATA_CFG
    val_t cfg = DATA_CFG;
    VASSERT(ubase_check(SET(P, cfg)) && ubase_check(SET(Q, cfg)), "harness: concrete configuration accepted");
#else
    val_t cfg = ubase_check(e2) ? v2 : v1;
    bool configured = ubase_check(e2) || ubase_check(e1);
    if (configured)
        VASSERT(ubase_check(SET(Q, cfg)), "the value accepted by one instance is accepted by another");
#endif
    /* Q: interleave junk-loaded getter calls */
    val_t j = val_junk();
    (void)GET(Q, &j);
    struct upipe *oj = (struct upipe *)(uintptr_t)nd_u64();
    (void)upipe_get_output(Q, &oj);
    uint8_t bytes[4];
    int n = 4;      /* concrete size: a symbolic one makes the shape of every later block operation symbolic */
    for (int i = 0; i < 4; i++)
        bytes[i] = nd_u8();
    upipe_input(P, env_block_uref(bytes, n), NULL);
    upipe_input(Q, env_block_uref(bytes, n), NULL);
    j = val_junk();
    (void)GET(Q, &j);
    struct env_sink *sp = &env_sinks[0], *sq = &env_sinks[1];
    VASSERT(sp->n_in == sq->n_in, "getter calls do not change how many buffers the pipe outputs");
    for (unsigned k = 0; k < sp->n_in && k < sq->n_in; k++) {
        uint8_t a[8], b[8];
        int la = env_sink_read(sp, k, a, 8), lb = env_sink_read(sq, k, b, 8);
        VASSERT(la == lb, "getter calls do not change output sizes");
        for (int i = 0; i < la && i < lb; i++)
            VASSERT(a[i] == b[i], "getter calls do not change output octets");
    }
    upipe_release(Q);
#endif
#ifdef WITNESS
    VASSUME(ubase_check(e1));
#ifdef WITNESS_REJECT
    VASSUME(second_rejected);
#endif
#if DATA && PIPE != P_AGG     /* the aggregator keeps a single small buffer for later */
    VASSUME(env_sinks[0].n_in >= 1);
#endif
#endif
    VWITNESS();
    (void)second_rejected;
    upipe_release(P);
#if defined(VAL_DICT)
    uref_free(v1);
    uref_free(v2);
#endif
    env_sinks_done();
    upipe_mgr_release(mgr);
    env_done();
    return 0;
}
