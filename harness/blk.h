/* blk.h -- the REAL block buffer manager as one translation unit. */
#ifndef VERIF_BLK_H
#define VERIF_BLK_H
#include "nd.h"
#include "lib/upipe/umem_alloc.c"
#include "lib/upipe/ubuf_mem_common.c"
#include "lib/upipe/ubuf_block_mem.c"
#include "upipe/ubuf_block.h"

#ifndef BLK_POOL_DEPTH
#define BLK_POOL_DEPTH 0
#endif
static struct umem_mgr *blk_umem_mgr;
static struct ubuf_mgr *blk_mgr_new(int prepend, int append, int align, int align_offset)
{
    if (blk_umem_mgr == NULL) {
        blk_umem_mgr = umem_alloc_mgr_alloc();
        VASSUME(blk_umem_mgr != NULL);
    }
    struct ubuf_mgr *mgr = ubuf_block_mem_mgr_alloc(BLK_POOL_DEPTH, BLK_POOL_DEPTH,
            blk_umem_mgr, prepend, append, align, align_offset);
    VASSUME(mgr != NULL);
    return mgr;
}
static void blk_mgr_done(struct ubuf_mgr *mgr)
{
    ubuf_mgr_release(mgr);
}
static void blk_umem_done(void)
{
    umem_mgr_release(blk_umem_mgr);
    blk_umem_mgr = NULL;
}
/* a block of `size` octets filled from src */
static struct ubuf *blk_new(struct ubuf_mgr *mgr, const uint8_t *src, int size)
{
    struct ubuf *u = ubuf_block_alloc(mgr, size);
    VASSUME(u != NULL);
    if (size > 0) {
        int wsize = -1;
        uint8_t *w;
        int err = ubuf_block_write(u, 0, &wsize, &w);
        VASSERT(err == UBASE_ERR_NONE && wsize == size, "fresh block is writable and one segment");
        for (int i = 0; i < size; i++)
            w[i] = src[i];
        ubuf_block_unmap(u, 0);
    }
    return u;
}
#endif
