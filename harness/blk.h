/* blk.h -- the REAL block buffer manager as one translation unit. */
#ifndef VERIF_BLK_H
#define VERIF_BLK_H
#include "nd.h"
#include "lib/upipe/umem_alloc.c"
#include "lib/upipe/ubuf_mem_common.c"
#include "lib/upipe/ubuf_block_mem.c"
#include "upipe/ubuf_block.h"

#ifndef VERIF_REPLAY
/* CBMC 6.11 has no library model for memchr (an undefined body returns a nondet pointer) */
void *memchr(const void *s, int c, size_t n)
{
    const unsigned char *p = (const unsigned char *)s;
    for (size_t i = 0; i < n; i++)
        if (p[i] == (unsigned char)c)
            return (void *)(p + i);
    return NULL;
}
#endif

#ifndef BLK_POOL_DEPTH
#define BLK_POOL_DEPTH 0
#endif
/* BLK_STATIC_MGRS (default on): while the harness operates, both managers are "static" objects
 * in Upipe's sense (refcount pointer NULL: use/release are no-ops), and get their refcount back
 * for the teardown.  Manager lifetime is C01's subject; here it keeps every urefcount_release
 * constant for symex -- otherwise, once states have been merged, CBMC explores the (recursive)
 * manager destructors at every buffer free (measured: no verdict in 200 s vs seconds). */
#ifndef BLK_STATIC_MGRS
#define BLK_STATIC_MGRS 1
#endif
static struct umem_mgr *blk_umem_mgr;
static struct urefcount *blk_umem_rc, *blk_mgr_rc;
static struct ubuf_mgr *blk_mgr_new(int prepend, int append, int align, int align_offset)
{
    if (blk_umem_mgr == NULL) {
        blk_umem_mgr = umem_alloc_mgr_alloc();
        VASSUME(blk_umem_mgr != NULL);
    }
    struct ubuf_mgr *mgr = ubuf_block_mem_mgr_alloc(BLK_POOL_DEPTH, BLK_POOL_DEPTH,
            blk_umem_mgr, prepend, append, align, align_offset);
    VASSUME(mgr != NULL);
#if BLK_STATIC_MGRS
    if (blk_umem_mgr->refcount != NULL) {
        blk_umem_rc = blk_umem_mgr->refcount;
        blk_umem_mgr->refcount = NULL;
    }
    blk_mgr_rc = mgr->refcount;
    mgr->refcount = NULL;
#endif
    return mgr;
}
static void blk_mgr_done(struct ubuf_mgr *mgr)
{
#if BLK_STATIC_MGRS
    mgr->refcount = blk_mgr_rc;
    blk_umem_mgr->refcount = blk_umem_rc;   /* the block manager releases its umem manager */
#endif
    ubuf_mgr_release(mgr);
#if BLK_STATIC_MGRS
    blk_umem_rc = blk_umem_mgr->refcount;
    blk_umem_mgr->refcount = NULL;
#endif
}
static void blk_umem_done(void)
{
#if BLK_STATIC_MGRS
    blk_umem_mgr->refcount = blk_umem_rc;
#endif
    umem_mgr_release(blk_umem_mgr);
    blk_umem_mgr = NULL;
}
/* a block of `size` octets filled from src */
static struct ubuf *blk_new(struct ubuf_mgr *mgr, const uint8_t *src, int size)
{
    struct ubuf *u = ubuf_block_alloc(mgr, size);
    VASSUME(u != NULL);
    if (size > 0) {
        int wsize = -1;
        uint8_t *w;
        int err = ubuf_block_write(u, 0, &wsize, &w);
        VASSERT(err == UBASE_ERR_NONE && wsize == size, "fresh block is writable and one segment");
        for (int i = 0; i < size; i++)
            w[i] = src[i];
        ubuf_block_unmap(u, 0);
    }
    return u;
}
#endif
