/* conc_units.c -- noinline entry points around the REAL lock-free headers, compiled by clang to LLVM IR and
 * translated by vlib/seqz.py into resumable C (one scheduling point per shared-memory access). */
#include "upipe/ubase.h"
#include "upipe/uatomic.h"
#include "upipe/urefcount.h"
#include "upipe/uring.h"
#include "upipe/ulifo.h"
#include "upipe/ufifo.h"
#include "upipe/upool.h"
#include "upipe/ubuf_mem_common.h"
#ifdef UNITS_QUEUE
/* C08: the queue / dealer PROTOCOLS are translated; what they are built on is cut out here and modelled atomically by
 * the harness: the FIFO (its linearizability is C07's subject), the event descriptors (eventfd(2) semantics; the
 * errno retry loops of ueventfd.h are not encoded) and the pump start/stop of the caller's event loop. */
#include "upipe/ueventfd.h"
#include "upipe/upump.h"
bool ext_fifo_push(struct ufifo *fifo, void *element);
void *ext_fifo_pop(struct ufifo *fifo);
bool ext_ev_read(struct ueventfd *fd);
bool ext_ev_write(struct ueventfd *fd);
void ext_upump_start(struct upump *upump);
void ext_upump_stop(struct upump *upump);
#undef ufifo_pop
#define ufifo_push(f, e) ext_fifo_push(f, e)
#define ufifo_pop(f, type) (type)ext_fifo_pop(f)
#define ueventfd_read(fd) ext_ev_read(fd)
#define ueventfd_write(fd) ext_ev_write(fd)
#define upump_start(u) ext_upump_start(u)
#define upump_stop(u) ext_upump_stop(u)
#include "upipe/uqueue.h"
#include "upipe/udeal.h"
#endif
#define NI __attribute__((noinline))
NI void w_urefcount_use(struct urefcount *rc) { urefcount_use(rc); }
NI void w_urefcount_release(struct urefcount *rc) { urefcount_release(rc); }
NI void w_shared_use(struct ubuf_mem_shared *s) { ubuf_mem_shared_use(s); }
NI bool w_shared_release(struct ubuf_mem_shared *s) { return ubuf_mem_shared_release(s); }
NI bool w_ulifo_push(struct ulifo *l, void *p) { return ulifo_push(l, p); }
NI void *w_ulifo_pop(struct ulifo *l) { return ulifo_pop(l, void *); }
#ifndef UNITS_QUEUE
NI bool w_ufifo_push(struct ufifo *l, void *p) { return ufifo_push(l, p); }
NI void *w_ufifo_pop(struct ufifo *l) { return ufifo_pop(l, void *); }
#endif
NI void *w_upool_alloc(struct upool *p) { return upool_alloc(p, void *); }
NI void w_upool_free(struct upool *p, void *o) { upool_free(p, o); }
#ifdef UNITS_QUEUE
NI bool w_uqueue_push(struct uqueue *q, void *p) { return uqueue_push(q, p); }
NI void *w_uqueue_pop(struct uqueue *q) { return uqueue_pop(q, void *); }
NI bool w_udeal_grab(struct udeal *d) { return udeal_grab(d); }
NI uint32_t w_udeal_start_count(struct udeal *d) { return uatomic_fetch_add(&d->waiters, 1); }  /* udeal_start without the pump / callback glue */
NI void w_udeal_yield(struct udeal *d, struct upump *u) { udeal_yield(d, u); }
NI void w_udeal_abort(struct udeal *d, struct upump *u) { udeal_abort(d, u); }
#endif
