/* nd.h -- nondeterministic inputs, assertions and witness marks, in two modes:
 *  - CBMC (default): inputs are solver variables; every input is written to a
 *    local of nd_raw() so that the counterexample trace can be turned into a replay
 *    vector by vlib/core.py.
 *  - VERIF_REPLAY: inputs are popped from the vector file named by $VERIF_VECTOR
 *    (one "<seq> <hex value>" per line); assume(false) exits 77, a failed VASSERT
 *    exits 88, so the same harness file runs natively against the real code.
 */
#ifndef VERIF_ND_H
#define VERIF_ND_H
#include <stdint.h>
#include <stdbool.h>
#include <stddef.h>

#ifndef VERIF_REPLAY
uint64_t nondet_verif_u64(void);
/* The k-th call of nd_raw on a path is input k: vlib/core.py counts the function-call steps
 * of nd_raw in the counterexample trace (they survive formula slicing) and reads nd_v. */
static uint64_t nd_raw(void)
{
    uint64_t nd_v = nondet_verif_u64();
    return nd_v;
}
#define VASSUME(c) __CPROVER_assume(c)
#define VASSERT(c, msg) __CPROVER_assert((c), msg)
#ifdef WITNESS
#define VWITNESS() __CPROVER_assert(0, "WITNESS-REACHED")
#else
#define VWITNESS() do {} while (0)
#endif
#define VNOTE(...) do {} while (0)
#else /* VERIF_REPLAY */
#include <stdio.h>
#include <stdlib.h>
#include <string.h>
#include <unistd.h>
static unsigned nd_seq;
static uint64_t nd_vec[4096];
static bool nd_have[4096];
static bool nd_loaded;
static void nd_load(void)
{
    nd_loaded = true;
    const char *fn = getenv("VERIF_VECTOR");
    if (!fn)
        return;
    FILE *f = fopen(fn, "r");
    if (!f)
        return;
    unsigned s;
    unsigned long long v;
    while (fscanf(f, "%u %llx", &s, &v) == 2)
        if (s < 4096) {
            nd_vec[s] = v;
            nd_have[s] = true;
        }
    fclose(f);
    alarm(10);
}
static inline uint64_t nd_raw(void)
{
    if (!nd_loaded)
        nd_load();
    nd_seq = nd_seq + 1;
    if (nd_seq < 4096 && nd_have[nd_seq])
        return nd_vec[nd_seq];
    return 0;
}
#define VASSUME(c) do { if (!(c)) { fprintf(stderr, "REPLAY-ASSUME-FALSE: %s (%s:%d)\n", #c, __FILE__, __LINE__); exit(77); } } while (0)
#define VASSERT(c, msg) do { if (!(c)) { fprintf(stderr, "REPLAY-ASSERT-FAIL: %s (%s:%d)\n", msg, __FILE__, __LINE__); exit(88); } } while (0)
#define VWITNESS() do { fprintf(stderr, "REPLAY-WITNESS-REACHED\n"); } while (0)
#define VNOTE(...) fprintf(stderr, __VA_ARGS__)
#define __CPROVER_assume(c) VASSUME(c)
#define __CPROVER_assert(c, msg) VASSERT(c, msg)
#endif

static inline uint8_t nd_u8(void) { return (uint8_t)nd_raw(); }
static inline uint16_t nd_u16(void) { return (uint16_t)nd_raw(); }
static inline uint32_t nd_u32(void) { return (uint32_t)nd_raw(); }
static inline uint64_t nd_u64(void) { return nd_raw(); }
static inline int nd_int(void) { return (int)(uint32_t)nd_raw(); }
static inline int64_t nd_i64(void) { return (int64_t)nd_raw(); }
static inline bool nd_bool(void) { return (nd_raw() & 1) != 0; }
/* value in [lo, hi] (assumed, not reduced: keeps the vector readable) */
static inline unsigned nd_range(unsigned lo, unsigned hi)
{
    unsigned v = (unsigned)nd_raw();
    VASSUME(v >= lo && v <= hi);
    return v;
}
#endif
