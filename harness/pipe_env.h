/* pipe_env.h -- environment for harnesses that drive REAL pipes (lib/upipe-modules/*.c):
 *  - real managers: umem_alloc, udict_inline, uref_std, ubuf_block_mem (one TU, pool depth 0);
 *    made "static" (refcount pointer NULL) while the harness runs unless ENV_COUNT_MGRS;
 *  - a recording probe (ordered event log, log events counted apart);
 *  - recording sinks: harness-implemented pipes that log set_flow_def / input / request traffic.
 * Everything harness-owned is a typed object (no flexible arrays): see memory note in DESIGN 1. */
#ifndef VERIF_PIPE_ENV_H
#define VERIF_PIPE_ENV_H
#include <stdarg.h>
#include <stdio.h>
#include "nd.h"

#ifndef VERIF_REPLAY
/* CBMC has no model for vsnprintf; log text is not the subject of any property */
#ifdef ENV_FORMAT_NAMES
/* attribute names built with a format ("h26x.n[%lu]"): a tiny formatter for exactly one %lu / %llu / %u argument
 * below 100; everything else in this harness family only formats log text */
int vsnprintf(char *str, size_t size, const char *format, va_list ap)
{
    char tmp[40];
    unsigned n = 0;
    for (unsigned i = 0; format[i] != 0 && n + 4 < sizeof(tmp); i++) {
        if (format[i] != '%') {
            tmp[n++] = format[i];
            continue;
        }
        i++;
        while (format[i] == 'l')
            i++;
        uint64_t v = va_arg(ap, uint64_t);
        if (v >= 10)
            tmp[n++] = (char)('0' + (v / 10) % 10);
        tmp[n++] = (char)('0' + v % 10);
    }
    tmp[n] = 0;
    if (str != NULL && size > 0) {
        unsigned k = 0;
        for (; k < n && k + 1 < size; k++)
            str[k] = tmp[k];
        str[k] = 0;
    }
    return (int)n;
}
#else
int vsnprintf(char *str, size_t size, const char *format, va_list ap)
{
    (void)format; (void)ap;
    if (str != NULL && size > 0)
        str[0] = '\0';
    return 0;
}
#endif
void *memchr(const void *s, int c, size_t n)
{
    const unsigned char *p = (const unsigned char *)s;
    for (size_t i = 0; i < n; i++)
        if (p[i] == (unsigned char)c)
            return (void *)(p + i);
    return NULL;
}
#endif

#include "lib/upipe/umem_alloc.c"
#include "lib/upipe/udict_inline.c"
#include "lib/upipe/uref_std.c"
#include "lib/upipe/ubuf_mem_common.c"
#include "lib/upipe/ubuf_block_mem.c"
#include "upipe/ubase.h"
#include "upipe/uprobe.h"
#include "upipe/upipe.h"
#include "upipe/urequest.h"
#include "upipe/uref_flow.h"
#include "upipe/uref_block.h"
#include "upipe/uref_block_flow.h"
#include "upipe/ubuf_block.h"
#ifdef ENV_WITH_UPUMP
#include "upump_mock.h"
static struct upump_mgr *env_upump_mgr;
#endif

/* ---- managers ----------------------------------------------------------- */
static struct umem_mgr *env_umem_mgr;
static struct udict_mgr *env_udict_mgr;
static struct uref_mgr *env_uref_mgr;
static struct ubuf_mgr *env_block_mgr;
static struct urefcount *env_rc[4];

static void env_init(void)
{
    env_umem_mgr = umem_alloc_mgr_alloc();
    VASSUME(env_umem_mgr != NULL);
    env_udict_mgr = udict_inline_mgr_alloc(0, env_umem_mgr, -1, -1);
    VASSUME(env_udict_mgr != NULL);
    env_uref_mgr = uref_std_mgr_alloc(0, env_udict_mgr, 0);
    VASSUME(env_uref_mgr != NULL);
    env_block_mgr = ubuf_block_mem_mgr_alloc(0, 0, env_umem_mgr, 0, 0, 0, 0);
    VASSUME(env_block_mgr != NULL);
#ifndef ENV_COUNT_MGRS
    env_rc[0] = env_umem_mgr->refcount;  env_umem_mgr->refcount = NULL;
    env_rc[1] = env_udict_mgr->refcount; env_udict_mgr->refcount = NULL;
    env_rc[2] = env_uref_mgr->refcount;  env_uref_mgr->refcount = NULL;
    env_rc[3] = env_block_mgr->refcount; env_block_mgr->refcount = NULL;
#endif
}
static void env_done(void)
{
#ifndef ENV_COUNT_MGRS
    env_umem_mgr->refcount = env_rc[0];
    env_udict_mgr->refcount = env_rc[1];
    env_uref_mgr->refcount = env_rc[2];
    env_block_mgr->refcount = env_rc[3];
#endif
#ifdef ENV_COUNT_MGRS
    /* C01: every manager is back to the references held by its creator(s): the harness (1) plus the
     * managers built on top of it (umem: dictionary + block managers; udict: uref manager) */
    VASSERT(uatomic_load(&env_block_mgr->refcount->refcount) == 1, "C01: block manager back to its creator's single reference");
    VASSERT(uatomic_load(&env_uref_mgr->refcount->refcount) == 1, "C01: uref manager back to its creator's single reference");
    VASSERT(uatomic_load(&env_udict_mgr->refcount->refcount) == 2, "C01: dictionary manager back to creator + uref manager");
    VASSERT(uatomic_load(&env_umem_mgr->refcount->refcount) == 3, "C01: umem manager back to creator + its two client managers");
#endif
    ubuf_mgr_release(env_block_mgr);
    uref_mgr_release(env_uref_mgr);
    udict_mgr_release(env_udict_mgr);
    umem_mgr_release(env_umem_mgr);
}

/* a flow definition "def" (non-_va path: no formatting) */
static struct uref *env_flow_def(const char *def)
{
    struct uref *f = uref_alloc_control(env_uref_mgr);
    VASSUME(f != NULL);
    int err = uref_flow_set_def(f, def);
    VASSERT(ubase_check(err), "harness: flow definition built");
    return f;
}
/* a uref carrying a one-segment block of n octets copied from src */
static struct uref *env_block_uref(const uint8_t *src, int n)
{
    struct uref *u = uref_block_alloc(env_uref_mgr, env_block_mgr, n);
    VASSUME(u != NULL);
    if (n > 0) {
        int sz = -1;
        uint8_t *w;
        int err = uref_block_write(u, 0, &sz, &w);
        VASSERT(ubase_check(err) && sz == n, "harness: fresh block writable");
        for (int i = 0; i < n; i++)
            w[i] = src[i];
        uref_block_unmap(u, 0);
    }
    return u;
}

/* ---- recording probe ----------------------------------------------------- */
#ifndef ENV_MAXEV
#define ENV_MAXEV 24
#endif
struct env_event { struct upipe *pipe; int event; };
static struct env_event env_ev[ENV_MAXEV];
static unsigned env_nev, env_nlog;
static struct uprobe env_probe;

static int env_catch(struct uprobe *uprobe, struct upipe *upipe, int event, va_list args)
{
    (void)uprobe; (void)args;
    if (event == UPROBE_LOG) {
        env_nlog++;
        return UBASE_ERR_NONE;
    }
    VASSERT(env_nev < ENV_MAXEV, "harness capacity: event log");
    env_ev[env_nev].pipe = upipe;
    env_ev[env_nev].event = event;
    env_nev++;
#ifdef ENV_WITH_UPUMP
    if (event == UPROBE_NEED_UPUMP_MGR) {
        struct upump_mgr **mgr_p = va_arg(args, struct upump_mgr **);
        *mgr_p = upump_mgr_use(env_upump_mgr);
        return UBASE_ERR_NONE;
    }
#endif
    /* nobody provides anything else: requests and "need" events stay unanswered */
    if (event == UPROBE_PROVIDE_REQUEST || event == UPROBE_NEED_UPUMP_MGR || event == UPROBE_NEED_OUTPUT ||
        event == UPROBE_NEED_SOURCE_MGR)
        return UBASE_ERR_UNHANDLED;
    return UBASE_ERR_NONE;
}
static void env_probe_init(void)
{
    uprobe_init(&env_probe, env_catch, NULL);
#ifdef ENV_WITH_UPUMP
    env_upump_mgr = mock_mgr_alloc();
#endif
}
/* number of non-log events thrown by pipe p, and position of the first/last */
static unsigned env_count(struct upipe *p, int event)
{
    unsigned n = 0;
    for (unsigned i = 0; i < env_nev; i++)
        if (env_ev[i].pipe == p && env_ev[i].event == event)
            n++;
    return n;
}

/* ---- recording sinks ----------------------------------------------------- */
#ifndef ENV_MAXIN
#define ENV_MAXIN 6
#endif
#ifndef ENV_NSINKS
#define ENV_NSINKS 2
#endif
enum env_skind { SK_FLOWDEF_OK = 1, SK_FLOWDEF_REJECT, SK_INPUT, SK_REGISTER, SK_UNREGISTER };
struct env_slog { int sink; int kind; };
struct env_sink {
    struct urefcount refcount;
    struct upipe upipe;
    int id;
    bool accept;                    /* answer to the next set_flow_def */
    bool dead;
    struct uref *flow_def;          /* last accepted definition (dup) */
    struct uref *in[ENV_MAXIN];     /* received buffers, kept for inspection */
    unsigned n_in, n_flowdef_ok, n_flowdef_rej, n_register, n_unregister;
    bool flowdef_current;           /* a definition was accepted since the last (re)connection marker */
};
static struct env_sink env_sinks[ENV_NSINKS];
static struct env_slog env_slog[ENV_MAXEV];
static unsigned env_nslog;
static struct upipe_mgr env_sink_mgr;

#ifdef ENV_SINK_HOOKS       /* online monitors supplied by the harness */
static void env_on_sink_flowdef(int sink, bool accepted, struct uref *flow_def);
static void env_on_sink_input(int sink, struct uref *uref);
#endif
static struct env_sink *env_sink_of(struct upipe *upipe)
{
    return container_of(upipe, struct env_sink, upipe);
}
static void env_slog_add(int sink, int kind)
{
    VASSERT(env_nslog < ENV_MAXEV, "harness capacity: sink log");
    env_slog[env_nslog].sink = sink;
    env_slog[env_nslog].kind = kind;
    env_nslog++;
}
static void env_sink_input(struct upipe *upipe, struct uref *uref, struct upump **upump_p)
{
    (void)upump_p;
    struct env_sink *s = env_sink_of(upipe);
    VASSERT(!s->dead, "input sent to a sink that was released");
    VASSERT(s->n_in < ENV_MAXIN, "harness capacity: sink inputs");
#ifdef ENV_SINK_HOOKS
    env_on_sink_input(s->id, uref);
#endif
    s->in[s->n_in++] = uref;
    env_slog_add(s->id, SK_INPUT);
}
static int env_sink_control(struct upipe *upipe, int command, va_list args)
{
    struct env_sink *s = env_sink_of(upipe);
    VASSERT(!s->dead, "control sent to a sink that was released");
    switch (command) {
        case UPIPE_SET_FLOW_DEF: {
            struct uref *flow_def = va_arg(args, struct uref *);
#ifdef ENV_SINK_HOOKS
            env_on_sink_flowdef(s->id, s->accept, flow_def);
#endif
            if (!s->accept) {
                s->n_flowdef_rej++;
                env_slog_add(s->id, SK_FLOWDEF_REJECT);
                return UBASE_ERR_INVALID;
            }
            uref_free(s->flow_def);
            s->flow_def = uref_dup(flow_def);
            s->n_flowdef_ok++;
            s->flowdef_current = true;
            env_slog_add(s->id, SK_FLOWDEF_OK);
            return UBASE_ERR_NONE;
        }
        case UPIPE_REGISTER_REQUEST:
            s->n_register++;
            env_slog_add(s->id, SK_REGISTER);
            return UBASE_ERR_NONE;
        case UPIPE_UNREGISTER_REQUEST:
            s->n_unregister++;
            env_slog_add(s->id, SK_UNREGISTER);
            return UBASE_ERR_NONE;
        default:
            return UBASE_ERR_UNHANDLED;
    }
}
static void env_sink_free(struct urefcount *rc)
{
    struct env_sink *s = container_of(rc, struct env_sink, refcount);
    s->dead = true;
}
static void env_sinks_init(void)
{
    env_sink_mgr.refcount = NULL;
    env_sink_mgr.signature = UBASE_FOURCC('s', 'i', 'n', 'k');
    env_sink_mgr.upipe_alloc = NULL;
    env_sink_mgr.upipe_input = env_sink_input;
    env_sink_mgr.upipe_control = env_sink_control;
    env_sink_mgr.upipe_mgr_control = NULL;
    for (int i = 0; i < ENV_NSINKS; i++) {
        struct env_sink *s = &env_sinks[i];
        s->id = i;
        s->accept = true;
        s->dead = false;
        s->flow_def = NULL;
        s->n_in = s->n_flowdef_ok = s->n_flowdef_rej = s->n_register = s->n_unregister = 0;
        s->flowdef_current = false;
        urefcount_init(&s->refcount, env_sink_free);
        upipe_init(&s->upipe, &env_sink_mgr, NULL);
        s->upipe.refcount = &s->refcount;
    }
}
/* drop everything the sinks kept; the harness holds the initial reference on each sink */
static void env_sinks_done(void)
{
    for (int i = 0; i < ENV_NSINKS; i++) {
        struct env_sink *s = &env_sinks[i];
        for (unsigned k = 0; k < s->n_in; k++)
            uref_free(s->in[k]);
        uref_free(s->flow_def);
        s->flow_def = NULL;
    }
}
/* content of received buffer k of sink s: size and octets (up to cap) */
static int env_sink_read(struct env_sink *s, unsigned k, uint8_t *out, int cap)
{
    size_t size = 0;
    VASSERT(s->in[k]->ubuf != NULL && ubase_check(uref_block_size(s->in[k], &size)), "sink: buffer carries a block");
    VASSERT((int)size <= cap, "harness capacity: sink buffer size");
    if (size > 0)
        VASSERT(ubase_check(uref_block_extract(s->in[k], 0, (int)size, out)), "sink: buffer readable");
    return (int)size;
}
#endif
