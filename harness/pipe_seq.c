/* pipe_seq.c -- one real linear pipe under a driver-chosen sequence of API calls, observed by the
 * recording probe and the recording sinks of pipe_env.h.  Shared by C04 (ready/dead/flow
 * definition protocol), C05 (no loss / duplication / reordering) and C01 (everything released).
 * PIPE selects the pipe; OPS is the operation sequence (discrete selector, enumerated by the
 * driver); payload octets, option values and -- where it does not change the shape of the heap --
 * the sinks' answers are symbolic.
 *   0 set_flow_def("block.")        1 set_flow_def("block.other.")   2 set_flow_def("pic.") [must be refused]
 *   3 set_output(S0)  4 set_output(S1)  5 set_output(NULL)
 *   6 input(buffer #n: 3 symbolic octets, first octet of the ORIGINAL kept by the harness)
 *   7 flush           8 S0 starts rejecting flow definitions   9 S0 accepts again
 *   10 (helper-built pipe only) the pipe rebuilds its output flow definition: take out, amend, store back
 * After the sequence the pipe is released, then the sinks; monitors run online and at the end. */
#define ENV_SINK_HOOKS 1
#include "pipe_env.h"

#define P_IDEM 1
#define P_SKIP 2
#define P_SETATTR 3
#define P_SETFLOWDEF 4
#define P_PROBE_UREF 5
#define P_DELAY 6
#define P_HTONS 7
#define P_NULL 8
#define P_MATCH_ATTR 9
#define P_HELPER 10
#define P_HOLD 11

#if PIPE == P_IDEM
#include "lib/upipe-modules/upipe_idem.c"
#define MGR_ALLOC() upipe_idem_mgr_alloc()
#elif PIPE == P_SKIP
#include "lib/upipe-modules/upipe_skip.c"
#define MGR_ALLOC() upipe_skip_mgr_alloc()
#define CONFIGURE(p) VASSERT(ubase_check(upipe_skip_set_offset(p, 1)), "harness: option accepted")
#define XFORM_SKIP 1
#elif PIPE == P_SETATTR
#include "lib/upipe-modules/upipe_setattr.c"
#define MGR_ALLOC() upipe_setattr_mgr_alloc()
#elif PIPE == P_SETFLOWDEF
#include "lib/upipe-modules/upipe_setflowdef.c"
#define MGR_ALLOC() upipe_setflowdef_mgr_alloc()
#elif PIPE == P_PROBE_UREF
#include "lib/upipe-modules/upipe_probe_uref.c"
#define MGR_ALLOC() upipe_probe_uref_mgr_alloc()
#elif PIPE == P_DELAY
#include "lib/upipe-modules/upipe_delay.c"
#define MGR_ALLOC() upipe_delay_mgr_alloc()
#define CONFIGURE(p) VASSERT(ubase_check(upipe_delay_set_delay(p, nd_i64())), "harness: option accepted")
#elif PIPE == P_HTONS
#include "lib/upipe-modules/upipe_htons.c"
#define MGR_ALLOC() upipe_htons_mgr_alloc()
#define XFORM_SWAP 1
#elif PIPE == P_NULL
#include "lib/upipe-modules/upipe_null.c"
#define MGR_ALLOC() upipe_null_mgr_alloc()
#define NO_OUTPUT 1
#elif PIPE == P_MATCH_ATTR
#include "lib/upipe-modules/upipe_match_attr.c"
#define MGR_ALLOC() upipe_match_attr_mgr_alloc()
#elif PIPE == P_HELPER
/* A pass-through pipe assembled in the harness from the REAL helper macros (upipe_helper_upipe / urefcount /
 * void / output), used the way several real pipes use them (upipe_audio_merge, upipe_play, upipe_sync,
 * ts_psi_join): operation 10 rebuilds the output flow definition by taking it out of the pipe (field set to
 * NULL), amending it and storing it back with store_flow_def(). */
#include "upipe/upipe_helper_upipe.h"
#include "upipe/upipe_helper_urefcount.h"
#include "upipe/upipe_helper_void.h"
#include "upipe/upipe_helper_output.h"
#include "upipe/uref_clock.h"
struct hpipe {
    struct urefcount urefcount;
    struct upipe *output;
    struct uref *flow_def;
    enum upipe_helper_output_state output_state;
    struct uchain request_list;
    uint64_t latency;
    struct upipe upipe;
};
UPIPE_HELPER_UPIPE(hpipe, upipe, UBASE_FOURCC('h', 'p', 'i', 'p'))
UPIPE_HELPER_UREFCOUNT(hpipe, urefcount, hpipe_free)
UPIPE_HELPER_VOID(hpipe)
UPIPE_HELPER_OUTPUT(hpipe, output, flow_def, output_state, request_list)
static void hpipe_input(struct upipe *upipe, struct uref *uref, struct upump **upump_p)
{
    hpipe_output(upipe, uref, upump_p);
}
static void hpipe_build_flow_def(struct upipe *upipe)
{
    struct hpipe *h = hpipe_from_upipe(upipe);
    struct uref *flow_def = h->flow_def;
    if (flow_def == NULL)
        return;
    h->flow_def = NULL;
    h->latency++;
    if (!ubase_check(uref_clock_set_latency(flow_def, h->latency)))
        upipe_throw_error(upipe, UBASE_ERR_ALLOC);
    hpipe_store_flow_def(upipe, flow_def);
}
static int hpipe_control(struct upipe *upipe, int command, va_list args)
{
    UBASE_HANDLED_RETURN(hpipe_control_output(upipe, command, args));
    switch (command) {
        case UPIPE_SET_FLOW_DEF: {
            struct uref *flow_def = va_arg(args, struct uref *);
            if (flow_def == NULL)
                return UBASE_ERR_INVALID;
            struct uref *dup = uref_dup(flow_def);
            if (dup == NULL)
                return UBASE_ERR_ALLOC;
            hpipe_store_flow_def(upipe, dup);
            return UBASE_ERR_NONE;
        }
        default:
            return UBASE_ERR_UNHANDLED;
    }
}
static struct upipe *hpipe_alloc(struct upipe_mgr *mgr, struct uprobe *uprobe, uint32_t signature, va_list args)
{
    struct upipe *upipe = hpipe_alloc_void(mgr, uprobe, signature, args);
    if (upipe == NULL)
        return NULL;
    hpipe_init_urefcount(upipe);
    hpipe_init_output(upipe);
    hpipe_from_upipe(upipe)->latency = 0;
    upipe_throw_ready(upipe);
    return upipe;
}
static void hpipe_free(struct upipe *upipe)
{
    upipe_throw_dead(upipe);
    hpipe_clean_output(upipe);
    hpipe_clean_urefcount(upipe);
    hpipe_free_void(upipe);
}
static struct upipe_mgr hpipe_mgr = { .refcount = NULL, .signature = UBASE_FOURCC('h', 'p', 'i', 'p'),
    .upipe_alloc = hpipe_alloc, .upipe_input = hpipe_input, .upipe_control = hpipe_control, .upipe_mgr_control = NULL };
#define MGR_ALLOC() (&hpipe_mgr)
#define HAS_REBUILD 1
#elif PIPE == P_HOLD
/* A buffering pipe assembled in the harness from the REAL upipe_helper_input.h + upipe_helper_output.h macros,
 * written like the real users of the helper (queue sink, file sinks...): a buffer that cannot be handled now is
 * held (and the source pump would be blocked); when the downstream unblocks, held buffers are output first,
 * in arrival order.  "Downstream blocked" is a credit counter driven by the harness: operation 11 grants one
 * more buffer, 13 two more, 12 is the downstream's "writable again" notification (drain). */
#include "upipe/upipe_helper_upipe.h"
#include "upipe/upipe_helper_urefcount.h"
#include "upipe/upipe_helper_void.h"
#include "upipe/upipe_helper_output.h"
#include "upipe/upipe_helper_input.h"
struct hold {
    struct urefcount urefcount;
    struct upipe *output;
    struct uref *flow_def;
    enum upipe_helper_output_state output_state;
    struct uchain request_list;
    struct uchain urefs;
    unsigned int nb_urefs;
    unsigned int max_urefs;
    struct uchain blockers;
    unsigned credit;
    struct upipe upipe;
};
static bool hold_handle(struct upipe *upipe, struct uref *uref, struct upump **upump_p);
UPIPE_HELPER_UPIPE(hold, upipe, UBASE_FOURCC('h', 'o', 'l', 'd'))
UPIPE_HELPER_UREFCOUNT(hold, urefcount, hold_free)
UPIPE_HELPER_VOID(hold)
UPIPE_HELPER_OUTPUT(hold, output, flow_def, output_state, request_list)
UPIPE_HELPER_INPUT(hold, urefs, nb_urefs, max_urefs, blockers, hold_handle)
static bool hold_handle(struct upipe *upipe, struct uref *uref, struct upump **upump_p)
{
    struct hold *h = hold_from_upipe(upipe);
    if (h->credit == 0)
        return false;
    h->credit--;
    hold_output(upipe, uref, upump_p);
    return true;
}
static void hold_input(struct upipe *upipe, struct uref *uref, struct upump **upump_p)
{
    if (!hold_check_input(upipe)) {
        hold_hold_input(upipe, uref);
        hold_block_input(upipe, upump_p);
    } else if (!hold_handle(upipe, uref, upump_p)) {
        hold_hold_input(upipe, uref);
        hold_block_input(upipe, upump_p);
    }
}
static void hold_drain(struct upipe *upipe)
{
    if (hold_output_input(upipe))
        hold_unblock_input(upipe);
}
static int hold_control(struct upipe *upipe, int command, va_list args)
{
    UBASE_HANDLED_RETURN(hold_control_output(upipe, command, args));
    switch (command) {
        case UPIPE_SET_FLOW_DEF: {
            struct uref *flow_def = va_arg(args, struct uref *);
            if (flow_def == NULL)
                return UBASE_ERR_INVALID;
            struct uref *dup = uref_dup(flow_def);
            if (dup == NULL)
                return UBASE_ERR_ALLOC;
            hold_store_flow_def(upipe, dup);
            return UBASE_ERR_NONE;
        }
        case UPIPE_FLUSH:
            hold_flush_input(upipe);
            return UBASE_ERR_NONE;
        default:
            return UBASE_ERR_UNHANDLED;
    }
}
static struct upipe *hold_alloc(struct upipe_mgr *mgr, struct uprobe *uprobe, uint32_t signature, va_list args)
{
    struct upipe *upipe = hold_alloc_void(mgr, uprobe, signature, args);
    if (upipe == NULL)
        return NULL;
    hold_init_urefcount(upipe);
    hold_init_output(upipe);
    hold_init_input(upipe);
    hold_from_upipe(upipe)->credit = 0;
    upipe_throw_ready(upipe);
    return upipe;
}
static void hold_free(struct upipe *upipe)
{
    upipe_throw_dead(upipe);
    hold_clean_input(upipe);
    hold_clean_output(upipe);
    hold_clean_urefcount(upipe);
    hold_free_void(upipe);
}
static struct upipe_mgr hold_mgr = { .refcount = NULL, .signature = UBASE_FOURCC('h', 'o', 'l', 'd'),
    .upipe_alloc = hold_alloc, .upipe_input = hold_input, .upipe_control = hold_control, .upipe_mgr_control = NULL };
#define MGR_ALLOC() (&hold_mgr)
#define HAS_HOLD 1
#endif
#ifndef CONFIGURE
#define CONFIGURE(p) do {} while (0)
#endif

#define NBYTES 3
#define MAXIN 5
static struct upipe *P;
static bool p_dead;
static uint8_t sent[MAXIN][NBYTES];     /* original payload of every buffer handed to the pipe */
static struct uref *sent_uref[MAXIN];
static unsigned n_sent;
static bool have_def;                   /* the pipe accepted a flow definition */
static int cur_def = -1;                /* which one (0 / 1) */
static int cur_out = -1;                /* connected sink, -1 none */
static bool need_def[ENV_NSINKS];       /* the sink must see (and accept) a definition before its next buffer */
static bool rejecting[ENV_NSINKS];      /* the sink's last answer to a definition was a refusal */
static unsigned delivered;              /* buffers seen by the sinks so far */
static int m_state;                     /* model of the negotiation with the current output: 0 not presented, 1 accepted, 2 refused */

/* ---- online monitors, called from the sinks (see pipe_env.h hooks) ---- */
static void env_on_sink_flowdef(int sink, bool accepted, struct uref *flow_def)
{
    VASSERT(!p_dead, "C04: a pipe touches its output after throwing dead");
    VASSERT(sink == cur_out, "C04: flow definition sent to a pipe that is not the connected output");
    if (accepted) {
        need_def[sink] = false;
        rejecting[sink] = false;
        const char *def = NULL;
        VASSERT(flow_def != NULL && ubase_check(uref_flow_get_def(flow_def, &def)) && def != NULL,
                "C04: the flow definition sent downstream carries a definition string");
#if PIPE != P_SETFLOWDEF
        VASSERT(have_def, "C04: a definition reaches the output only after the pipe accepted one");
        VASSERT(!strcmp(def, cur_def == 0 ? "block." : cur_def == 1 ? "block.other." : "pic."), "C04: the output receives the CURRENT flow definition");
#endif
    } else
        rejecting[sink] = true;
}
static void env_on_sink_input(int sink, struct uref *uref)
{
    VASSERT(!p_dead, "C04: a pipe touches its output after throwing dead");
    VASSERT(sink == cur_out, "C05: buffer delivered to a pipe that is not the connected output");
    VASSERT(!need_def[sink], "C04: buffer delivered before the current flow definition was accepted by this output");
    VASSERT(!rejecting[sink], "C04: buffer delivered to an output that rejected the flow definition");
    /* C05: one output per input, in input order, same uref object for pass-through pipes */
    VASSERT(delivered < n_sent, "C05: more buffers delivered than received (duplication or invention)");
    unsigned k = delivered;
    /* buffers dropped because there was no (accepting) output may be skipped, order must be kept */
    while (k < n_sent && sent_uref[k] != uref)
        k++;
    VASSERT(k < n_sent, "C05: delivered buffer is one of the buffers handed to the pipe, not delivered before (order kept)");
    delivered = k + 1;
    uint8_t got[8];
    size_t size = 0;
    VASSERT(uref->ubuf != NULL && ubase_check(uref_block_size(uref, &size)), "C05: delivered buffer still carries its block");
#if defined(XFORM_SKIP)
    VASSERT(size == NBYTES - 1, "C05: skip removes exactly the configured prefix");
    VASSERT(ubase_check(uref_block_extract(uref, 0, (int)size, got)), "C05: payload readable");
    for (int i = 0; i < NBYTES - 1; i++)
        VASSERT(got[i] == sent[k][i + 1], "C05: skip leaves the remaining octets unchanged");
#elif defined(XFORM_SWAP)
    VASSERT(size == NBYTES, "C05: byte-order swap keeps the size");
    VASSERT(ubase_check(uref_block_extract(uref, 0, (int)size, got)), "C05: payload readable");
    VASSERT(got[0] == sent[k][1] && got[1] == sent[k][0] && got[2] == sent[k][2], "C05: 16-bit words swapped, odd tail octet kept");
#else
    VASSERT(size == NBYTES, "C05: pass-through pipe keeps the size");
    VASSERT(ubase_check(uref_block_extract(uref, 0, (int)size, got)), "C05: payload readable");
    for (int i = 0; i < NBYTES; i++)
        VASSERT(got[i] == sent[k][i], "C05: pass-through pipe keeps the payload");
#endif
}

static void probe_check_order(void)
{
    /* C04: ready first, dead last and exactly once -- over the non-log events thrown by P */
    int first = -1, last = -1;
    unsigned ndead = 0, nready = 0;
    for (unsigned i = 0; i < env_nev; i++)
        if (env_ev[i].pipe == P) {
            if (first < 0)
                first = (int)i;
            last = (int)i;
            if (env_ev[i].event == UPROBE_DEAD)
                ndead++;
            if (env_ev[i].event == UPROBE_READY)
                nready++;
        }
    VASSERT(first >= 0 && env_ev[first].event == UPROBE_READY, "C04: ready is the first event a pipe throws");
    VASSERT(nready == 1, "C04: ready thrown once");
    if (p_dead) {
        VASSERT(ndead == 1, "C04: dead thrown exactly once");
        VASSERT(env_ev[last].event == UPROBE_DEAD, "C04: dead is the last event a pipe throws");
    } else
        VASSERT(ndead == 0, "C04: dead not thrown while references remain");
}

static void do_set_output(int which)
{
    struct upipe *o = which < 0 ? NULL : &env_sinks[which].upipe;
    int err = upipe_set_output(P, o);
#ifdef NO_OUTPUT
    (void)err;
#else
    VASSERT(ubase_check(err), "set_output succeeds");
    cur_out = which;
    m_state = 0;
    if (which >= 0)
        need_def[which] = true;     /* a newly connected output must be told the flow definition */
    struct upipe *g = NULL;
    VASSERT(ubase_check(upipe_get_output(P, &g)) && g == o, "get_output returns the connected output");
#endif
}

int main(void)
{
    static const int ops[] = { OPS };
    env_init();
    env_probe_init();
    env_sinks_init();
    struct upipe_mgr *mgr = MGR_ALLOC();
    VASSUME(mgr != NULL);
    P = upipe_void_alloc(mgr, uprobe_use(&env_probe));
    VASSUME(P != NULL);
    CONFIGURE(P);
    probe_check_order();
    for (unsigned k = 0; k < sizeof(ops) / sizeof(ops[0]); k++) {
        switch (ops[k]) {
            case 0: case 1: case 2: {
                struct uref *fd = env_flow_def(ops[k] == 0 ? "block." : ops[k] == 1 ? "block.other." : "pic.");
                int err = upipe_set_flow_def(P, fd);
                uref_free(fd);
                if (ops[k] == 2) {
#if PIPE != P_IDEM && PIPE != P_NULL && PIPE != P_PROBE_UREF && PIPE != P_SETATTR && PIPE != P_SETFLOWDEF && PIPE != P_DELAY && PIPE != P_MATCH_ATTR && PIPE != P_HELPER && PIPE != P_HOLD
                    VASSERT(!ubase_check(err), "a flow definition of the wrong kind is refused");
#endif
                    if (ubase_check(err)) {     /* type-agnostic pipes accept anything */
                        if (!have_def || cur_def != 2) {
                            m_state = 0;
                            for (int s = 0; s < ENV_NSINKS; s++)
                                need_def[s] = true;
                        }
                        have_def = true;
                        cur_def = 2;
                    }
                } else {
                    VASSERT(ubase_check(err), "a flow definition of the expected kind is accepted");
                    if (!have_def || cur_def != ops[k]) {   /* setting an identical definition again is not a change */
                        m_state = 0;
                        for (int s = 0; s < ENV_NSINKS; s++)
                            need_def[s] = true;             /* every output must be told about the change */
                    }
                    have_def = true;
                    cur_def = ops[k];
                }
                break;
            }
            case 3: do_set_output(0); break;
            case 4: do_set_output(1); break;
            case 5: do_set_output(-1); break;
            case 6: {
                VASSERT(n_sent < MAXIN, "harness capacity: inputs");
                for (int i = 0; i < NBYTES; i++)
                    sent[n_sent][i] = nd_u8();
                struct uref *u;
#ifdef SEGMENTED    /* the payload as two chained segments (SEGMENTED octets + the rest) */
                u = env_block_uref(sent[n_sent], SEGMENTED);
                {
                    struct uref *t = env_block_uref(&sent[n_sent][SEGMENTED], NBYTES - SEGMENTED);
                    struct ubuf *tail = uref_detach_ubuf(t);
                    uref_free(t);
                    VASSERT(ubase_check(uref_block_append(u, tail)), "harness: segmented buffer built");
                }
#else
                u = env_block_uref(sent[n_sent], NBYTES);
#endif
                sent_uref[n_sent] = u;
                n_sent++;
                unsigned before = 0;
                for (int s = 0; s < ENV_NSINKS; s++)
                    before += env_sinks[s].n_in;
                upipe_input(P, u, NULL);
#if PIPE == P_IDEM || PIPE == P_SKIP || PIPE == P_SETATTR || PIPE == P_SETFLOWDEF || PIPE == P_PROBE_UREF || PIPE == P_DELAY || PIPE == P_HTONS || PIPE == P_HELPER
                /* one-to-one pipes: with an output that accepts the current definition, one input gives one output, at once */
                {
                    unsigned after = 0;
                    for (int s = 0; s < ENV_NSINKS; s++)
                        after += env_sinks[s].n_in;
                    /* reference model of the negotiation: a definition not yet presented to this output is presented now
                     * and accepted or refused; once refused nothing is delivered until the definition or the output changes */
                    if (cur_out >= 0 && have_def && m_state == 0)
                        m_state = env_sinks[cur_out].accept ? 1 : 2;
                    if (cur_out >= 0 && have_def && m_state == 1)
                        VASSERT(after == before + 1, "C05: a one-to-one pipe emits one output per input (nothing is lost)");
                    else
                        VASSERT(after == before, "C05: nothing is delivered without a connected output that accepted the flow definition");
                }
#endif
                break;
            }
            case 7:
                (void)upipe_flush(P);
                break;
            case 8: env_sinks[0].accept = false; break;
#ifdef HAS_REBUILD
            case 10:        /* the pipe rebuilds (amends) its output flow definition */
                hpipe_build_flow_def(P);
                if (have_def) {
                    m_state = 0;
                    for (int s = 0; s < ENV_NSINKS; s++)
                        need_def[s] = true;     /* the definition changed: every output must be told */
                }
                break;
#endif
#ifdef HAS_HOLD
            case 11: hold_from_upipe(P)->credit += 1; break;    /* the downstream can take one more buffer */
            case 13: hold_from_upipe(P)->credit += 2; break;
            case 12: hold_drain(P); break;                      /* "writable again": held buffers first, in arrival order */
#endif
            default: env_sinks[0].accept = true; break;
        }
        probe_check_order();
    }
#ifdef WITNESS
    VASSUME(delivered >= WITNESS_DELIVERED);
#endif
    VWITNESS();
    /* release: dead must be the very last thing the pipe does */
    upipe_release(P);
    p_dead = true;
    probe_check_order();
    /* C05 / C01: every buffer was forwarded (the sinks hold it) or freed by the pipe: CBMC's
     * memory-leak check decides "freed", the sink log decides "forwarded exactly once" */
    VASSERT(delivered <= n_sent, "C05: no buffer delivered twice");
    /* C01: the pipe gave back every reference it took on its outputs */
    for (int s = 0; s < ENV_NSINKS; s++) {
        VASSERT(!env_sinks[s].dead, "C01: an output was released more often than it was used");
        VASSERT(uatomic_load(&env_sinks[s].refcount.refcount) == 1, "C01: the pipe returned every reference it held on its outputs");
    }
    env_sinks_done();
    upipe_mgr_release(mgr);
    env_done();
    return 0;
}
