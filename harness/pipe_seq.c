/* pipe_seq.c -- one real linear pipe under a driver-chosen sequence of API calls, observed by the
 * recording probe and the recording sinks of pipe_env.h.  Shared by C04 (ready/dead/flow
 * definition protocol), C05 (no loss / duplication / reordering) and C01 (everything released).
 * PIPE selects the pipe; OPS is the operation sequence (discrete selector, enumerated by the
 * driver); payload octets, option values and -- where it does not change the shape of the heap --
 * the sinks' answers are symbolic.
 *   0 set_flow_def("block.")        1 set_flow_def("block.other.")   2 set_flow_def("pic.") [must be refused]
 *   3 set_output(S0)  4 set_output(S1)  5 set_output(NULL)
 *   6 input(buffer #n: 3 symbolic octets, first octet of the ORIGINAL kept by the harness)
 *   7 flush           8 S0 starts rejecting flow definitions   9 S0 accepts again
 * After the sequence the pipe is released, then the sinks; monitors run online and at the end. */
#define ENV_SINK_HOOKS 1
#include "pipe_env.h"

#define P_IDEM 1
#define P_SKIP 2
#define P_SETATTR 3
#define P_SETFLOWDEF 4
#define P_PROBE_UREF 5
#define P_DELAY 6
#define P_HTONS 7
#define P_NULL 8
#define P_MATCH_ATTR 9

#if PIPE == P_IDEM
#include "lib/upipe-modules/upipe_idem.c"
#define MGR_ALLOC() upipe_idem_mgr_alloc()
#elif PIPE == P_SKIP
#include "lib/upipe-modules/upipe_skip.c"
#define MGR_ALLOC() upipe_skip_mgr_alloc()
#define CONFIGURE(p) VASSERT(ubase_check(upipe_skip_set_offset(p, 1)), "harness: option accepted")
#define XFORM_SKIP 1
#elif PIPE == P_SETATTR
#include "lib/upipe-modules/upipe_setattr.c"
#define MGR_ALLOC() upipe_setattr_mgr_alloc()
#elif PIPE == P_SETFLOWDEF
#include "lib/upipe-modules/upipe_setflowdef.c"
#define MGR_ALLOC() upipe_setflowdef_mgr_alloc()
#elif PIPE == P_PROBE_UREF
#include "lib/upipe-modules/upipe_probe_uref.c"
#define MGR_ALLOC() upipe_probe_uref_mgr_alloc()
#elif PIPE == P_DELAY
#include "lib/upipe-modules/upipe_delay.c"
#define MGR_ALLOC() upipe_delay_mgr_alloc()
#define CONFIGURE(p) VASSERT(ubase_check(upipe_delay_set_delay(p, nd_i64())), "harness: option accepted")
#elif PIPE == P_HTONS
#include "lib/upipe-modules/upipe_htons.c"
#define MGR_ALLOC() upipe_htons_mgr_alloc()
#define XFORM_SWAP 1
#elif PIPE == P_NULL
#include "lib/upipe-modules/upipe_null.c"
#define MGR_ALLOC() upipe_null_mgr_alloc()
#define NO_OUTPUT 1
#elif PIPE == P_MATCH_ATTR
#include "lib/upipe-modules/upipe_match_attr.c"
#define MGR_ALLOC() upipe_match_attr_mgr_alloc()
#endif
#ifndef CONFIGURE
#define CONFIGURE(p) do {} while (0)
#endif

#define NBYTES 3
#define MAXIN 4
static struct upipe *P;
static bool p_dead;
static uint8_t sent[MAXIN][NBYTES];     /* original payload of every buffer handed to the pipe */
static struct uref *sent_uref[MAXIN];
static unsigned n_sent;
static bool have_def;                   /* the pipe accepted a flow definition */
static int cur_def = -1;                /* which one (0 / 1) */
static int cur_out = -1;                /* connected sink, -1 none */
static bool need_def[ENV_NSINKS];       /* the sink must see (and accept) a definition before its next buffer */
static bool rejecting[ENV_NSINKS];      /* the sink's last answer to a definition was a refusal */
static unsigned delivered;              /* buffers seen by the sinks so far */

/* ---- online monitors, called from the sinks (see pipe_env.h hooks) ---- */
static void env_on_sink_flowdef(int sink, bool accepted, struct uref *flow_def)
{
    VASSERT(!p_dead, "C04: a pipe touches its output after throwing dead");
    VASSERT(sink == cur_out, "C04: flow definition sent to a pipe that is not the connected output");
    if (accepted) {
        need_def[sink] = false;
        rejecting[sink] = false;
        const char *def = NULL;
        VASSERT(flow_def != NULL && ubase_check(uref_flow_get_def(flow_def, &def)) && def != NULL,
                "C04: the flow definition sent downstream carries a definition string");
#if PIPE != P_SETFLOWDEF
        VASSERT(have_def, "C04: a definition reaches the output only after the pipe accepted one");
        VASSERT(!strcmp(def, cur_def == 0 ? "block." : cur_def == 1 ? "block.other." : "pic."), "C04: the output receives the CURRENT flow definition");
#endif
    } else
        rejecting[sink] = true;
}
static void env_on_sink_input(int sink, struct uref *uref)
{
    VASSERT(!p_dead, "C04: a pipe touches its output after throwing dead");
    VASSERT(sink == cur_out, "C05: buffer delivered to a pipe that is not the connected output");
    VASSERT(!need_def[sink], "C04: buffer delivered before the current flow definition was accepted by this output");
    VASSERT(!rejecting[sink], "C04: buffer delivered to an output that rejected the flow definition");
    /* C05: one output per input, in input order, same uref object for pass-through pipes */
    VASSERT(delivered < n_sent, "C05: more buffers delivered than received (duplication or invention)");
    unsigned k = delivered;
    /* buffers dropped because there was no (accepting) output may be skipped, order must be kept */
    while (k < n_sent && sent_uref[k] != uref)
        k++;
    VASSERT(k < n_sent, "C05: delivered buffer is one of the buffers handed to the pipe, not delivered before (order kept)");
    delivered = k + 1;
    uint8_t got[8];
    size_t size = 0;
    VASSERT(uref->ubuf != NULL && ubase_check(uref_block_size(uref, &size)), "C05: delivered buffer still carries its block");
#if defined(XFORM_SKIP)
    VASSERT(size == NBYTES - 1, "C05: skip removes exactly the configured prefix");
    VASSERT(ubase_check(uref_block_extract(uref, 0, (int)size, got)), "C05: payload readable");
    for (int i = 0; i < NBYTES - 1; i++)
        VASSERT(got[i] == sent[k][i + 1], "C05: skip leaves the remaining octets unchanged");
#elif defined(XFORM_SWAP)
    VASSERT(size == NBYTES, "C05: byte-order swap keeps the size");
    VASSERT(ubase_check(uref_block_extract(uref, 0, (int)size, got)), "C05: payload readable");
    VASSERT(got[0] == sent[k][1] && got[1] == sent[k][0] && got[2] == sent[k][2], "C05: 16-bit words swapped, odd tail octet kept");
#else
    VASSERT(size == NBYTES, "C05: pass-through pipe keeps the size");
    VASSERT(ubase_check(uref_block_extract(uref, 0, (int)size, got)), "C05: payload readable");
    for (int i = 0; i < NBYTES; i++)
        VASSERT(got[i] == sent[k][i], "C05: pass-through pipe keeps the payload");
#endif
}

static void probe_check_order(void)
{
    /* C04: ready first, dead last and exactly once -- over the non-log events thrown by P */
    int first = -1, last = -1;
    unsigned ndead = 0, nready = 0;
    for (unsigned i = 0; i < env_nev; i++)
        if (env_ev[i].pipe == P) {
            if (first < 0)
                first = (int)i;
            last = (int)i;
            if (env_ev[i].event == UPROBE_DEAD)
                ndead++;
            if (env_ev[i].event == UPROBE_READY)
                nready++;
        }
    VASSERT(first >= 0 && env_ev[first].event == UPROBE_READY, "C04: ready is the first event a pipe throws");
    VASSERT(nready == 1, "C04: ready thrown once");
    if (p_dead) {
        VASSERT(ndead == 1, "C04: dead thrown exactly once");
        VASSERT(env_ev[last].event == UPROBE_DEAD, "C04: dead is the last event a pipe throws");
    } else
        VASSERT(ndead == 0, "C04: dead not thrown while references remain");
}

static void do_set_output(int which)
{
    struct upipe *o = which < 0 ? NULL : &env_sinks[which].upipe;
    int err = upipe_set_output(P, o);
#ifdef NO_OUTPUT
    (void)err;
#else
    VASSERT(ubase_check(err), "set_output succeeds");
    cur_out = which;
    if (which >= 0)
        need_def[which] = true;     /* a newly connected output must be told the flow definition */
    struct upipe *g = NULL;
    VASSERT(ubase_check(upipe_get_output(P, &g)) && g == o, "get_output returns the connected output");
#endif
}

int main(void)
{
    static const int ops[] = { OPS };
    env_init();
    env_probe_init();
    env_sinks_init();
    struct upipe_mgr *mgr = MGR_ALLOC();
    VASSUME(mgr != NULL);
    P = upipe_void_alloc(mgr, uprobe_use(&env_probe));
    VASSUME(P != NULL);
    CONFIGURE(P);
    probe_check_order();
    for (unsigned k = 0; k < sizeof(ops) / sizeof(ops[0]); k++) {
        switch (ops[k]) {
            case 0: case 1: case 2: {
                struct uref *fd = env_flow_def(ops[k] == 0 ? "block." : ops[k] == 1 ? "block.other." : "pic.");
                int err = upipe_set_flow_def(P, fd);
                uref_free(fd);
                if (ops[k] == 2) {
#if PIPE != P_IDEM && PIPE != P_NULL && PIPE != P_PROBE_UREF && PIPE != P_SETATTR && PIPE != P_SETFLOWDEF && PIPE != P_DELAY && PIPE != P_MATCH_ATTR
                    VASSERT(!ubase_check(err), "a flow definition of the wrong kind is refused");
#endif
                    if (ubase_check(err)) {     /* type-agnostic pipes accept anything */
                        if (!have_def || cur_def != 2)
                            for (int s = 0; s < ENV_NSINKS; s++)
                                need_def[s] = true;
                        have_def = true;
                        cur_def = 2;
                    }
                } else {
                    VASSERT(ubase_check(err), "a flow definition of the expected kind is accepted");
                    if (!have_def || cur_def != ops[k])     /* setting an identical definition again is not a change */
                        for (int s = 0; s < ENV_NSINKS; s++)
                            need_def[s] = true;             /* every output must be told about the change */
                    have_def = true;
                    cur_def = ops[k];
                }
                break;
            }
            case 3: do_set_output(0); break;
            case 4: do_set_output(1); break;
            case 5: do_set_output(-1); break;
            case 6: {
                VASSERT(n_sent < MAXIN, "harness capacity: inputs");
                for (int i = 0; i < NBYTES; i++)
                    sent[n_sent][i] = nd_u8();
                struct uref *u = env_block_uref(sent[n_sent], NBYTES);
                sent_uref[n_sent] = u;
                n_sent++;
                upipe_input(P, u, NULL);
                break;
            }
            case 7:
                (void)upipe_flush(P);
                break;
            case 8: env_sinks[0].accept = false; break;
            default: env_sinks[0].accept = true; break;
        }
        probe_check_order();
    }
#ifdef WITNESS
    VASSUME(delivered >= WITNESS_DELIVERED);
#endif
    VWITNESS();
    /* release: dead must be the very last thing the pipe does */
    upipe_release(P);
    p_dead = true;
    probe_check_order();
    /* C05 / C01: every buffer was forwarded (the sinks hold it) or freed by the pipe: CBMC's
     * memory-leak check decides "freed", the sink log decides "forwarded exactly once" */
    VASSERT(delivered <= n_sent, "C05: no buffer delivered twice");
    /* C01: the pipe gave back every reference it took on its outputs */
    for (int s = 0; s < ENV_NSINKS; s++) {
        VASSERT(!env_sinks[s].dead, "C01: an output was released more often than it was used");
        VASSERT(uatomic_load(&env_sinks[s].refcount.refcount) == 1, "C01: the pipe returned every reference it held on its outputs");
    }
    env_sinks_done();
    upipe_mgr_release(mgr);
    env_done();
    return 0;
}
