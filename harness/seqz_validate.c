/* seqz_validate.c -- translation validation of vlib/seqz.py, run natively on every check run:
 * the generated resumable C (seqz_gen.c), run to completion without preemption, must behave exactly like the
 * real inline functions it was derived from, on deterministic pseudo-random single-thread scenarios:
 * same return values, same final contents.  Any disagreement makes the check fail closed. */
#include <stdio.h>
#include <stdlib.h>
#include <stdint.h>
#include <stdbool.h>
#include <string.h>
#include "upipe/ubase.h"
#include "upipe/uatomic.h"
#include "upipe/urefcount.h"
#include "upipe/uring.h"
#include "upipe/ulifo.h"
#include "upipe/ufifo.h"
#include "upipe/upool.h"
#include "upipe/ubuf_mem_common.h"
#ifdef UNITS_QUEUE
#include "upipe/uqueue.h"
#include "upipe/udeal.h"
#endif

static unsigned long bad;
#define VERIF_SEQZ_ASSERT_FAIL() do { fprintf(stderr, "translated code hit an assert()\n"); bad++; } while (0)
#define VERIF_SEQZ_BAD_PC() do { fprintf(stderr, "bad pc\n"); bad++; } while (0)
#define VERIF_SEQZ_UNREACHABLE() do { fprintf(stderr, "unreachable\n"); bad++; } while (0)
#define VERIF_SEQZ_ICALL1(fn, a) ((void (*)(char *))(fn))(a)
#define VERIF_SEQZ_ICALL2(fn, a, b) ((void (*)(char *, char *))(fn))(a, b)
#define VERIF_SEQZ_ICALLV1(fn, a) ((char *(*)(char *))(fn))(a)
#include "seqz_gen.c"

#define RUN(fn, frame) do { (frame).pc = 0; (frame).prev = -1; (frame).budget = 1 << 30; \
    if (!S_##fn(&(frame))) { fprintf(stderr, #fn " did not complete\n"); bad++; } } while (0)
#define CHECK(c, what) do { if (!(c)) { if (bad < 10) fprintf(stderr, "DISAGREE: %s (scenario %lu)\n", what, scen); bad++; } } while (0)

static uint32_t lcg = 12345;
static uint32_t rnd(void) { lcg = lcg * 1664525u + 1013904223u; return lcg >> 8; }
static unsigned long scen;

static unsigned cb_a, cb_b;
static void cb_real(struct urefcount *r) { (void)r; cb_a++; }
static void cb_tr(struct urefcount *r) { (void)r; cb_b++; }

#define CAPV 3
static void *pa_cb(struct upool *p) { (void)p; return malloc(8); }
static void pf_cb(struct upool *p, void *o) { (void)p; free(o); }
static unsigned pool_allocs_b, pool_frees_b;
static void *pb_cb(struct upool *p) { (void)p; pool_allocs_b++; return malloc(8); }
static void pfb_cb(struct upool *p, void *o) { (void)p; pool_frees_b++; free(o); }
static unsigned pool_allocs_a, pool_frees_a;
static void *pa2_cb(struct upool *p) { (void)p; pool_allocs_a++; return malloc(8); }
static void pfa2_cb(struct upool *p, void *o) { (void)p; pool_frees_a++; free(o); }

int main(void)
{
    unsigned long total = 0;
    /* ---- LIFO and FIFO ---- */
    for (int kind = 0; kind < 2; kind++)
        for (int cap = 0; cap <= CAPV; cap++) {
            struct ulifo la, lb;
            struct ufifo fa, fb;
            struct uring_elem ea[CAPV + 1], eb[CAPV + 1];
            memset(ea, 0, sizeof(ea));
            memset(eb, 0, sizeof(eb));
            if (kind == 0) { ulifo_init(&la, cap, ea); ulifo_init(&lb, cap, eb); }
            else { ufifo_init(&fa, cap, ea); ufifo_init(&fb, cap, eb); }
            for (int i = 0; i < 3000; i++, scen++, total++) {
                if (rnd() & 1) {
                    void *v = (void *)(uintptr_t)(1 + (rnd() & 0xffff));
                    if (kind == 0) {
                        bool ra = ulifo_push(&la, v);
                        struct F_w_ulifo_push f; memset(&f, 0, sizeof(f)); f.v_0 = (char *)&lb; f.v_1 = (char *)v;
                        RUN(w_ulifo_push, f);
                        CHECK(ra == (f.ret != 0), "ulifo_push result");
                    } else {
                        bool ra = ufifo_push(&fa, v);
                        struct F_w_ufifo_push f; memset(&f, 0, sizeof(f)); f.v_0 = (char *)&fb; f.v_1 = (char *)v;
                        RUN(w_ufifo_push, f);
                        CHECK(ra == (f.ret != 0), "ufifo_push result");
                    }
                } else {
                    if (kind == 0) {
                        void *ra = ulifo_pop(&la, void *);
                        struct F_w_ulifo_pop f; memset(&f, 0, sizeof(f)); f.v_0 = (char *)&lb;
                        RUN(w_ulifo_pop, f);
                        CHECK(ra == (void *)f.ret, "ulifo_pop result");
                    } else {
                        void *ra = ufifo_pop(&fa, void *);
                        struct F_w_ufifo_pop f; memset(&f, 0, sizeof(f)); f.v_0 = (char *)&fb;
                        RUN(w_ufifo_pop, f);
                        CHECK(ra == (void *)f.ret, "ufifo_pop result");
                    }
                }
            }
            CHECK(!memcmp(ea, eb, sizeof(ea)), "ring contents after the scenario");
            if (kind == 0) CHECK(la.lifo_carrier == lb.lifo_carrier && la.lifo_empty == lb.lifo_empty, "lifo heads");
            else CHECK(fa.fifo_carrier == fb.fifo_carrier && fa.lifo_empty == fb.lifo_empty, "fifo heads");
        }
    /* ---- reference counts ---- */
    {
        struct urefcount a, b;
        urefcount_init(&a, cb_real);
        urefcount_init(&b, cb_tr);
        unsigned held = 1;
        for (int i = 0; i < 2000 && held > 0; i++, scen++, total++) {
            if ((rnd() & 3) || held == 0) {
                urefcount_use(&a);
                struct F_w_urefcount_use f; memset(&f, 0, sizeof(f)); f.v_0 = (char *)&b;
                RUN(w_urefcount_use, f);
                held++;
            } else {
                urefcount_release(&a);
                struct F_w_urefcount_release f; memset(&f, 0, sizeof(f)); f.v_0 = (char *)&b;
                RUN(w_urefcount_release, f);
                held--;
            }
            CHECK(uatomic_load(&a.refcount) == uatomic_load(&b.refcount) && cb_a == cb_b && (a.cb == NULL) == (b.cb == NULL), "urefcount state");
        }
        while (held > 0) {
            urefcount_release(&a);
            struct F_w_urefcount_release f; memset(&f, 0, sizeof(f)); f.v_0 = (char *)&b;
            RUN(w_urefcount_release, f);
            held--;
            total++;
        }
        CHECK(cb_a == 1 && cb_b == 1, "destructor ran once in both");
    }
    {
        struct ubuf_mem_shared a, b;
        uatomic_init(&a.refcount, 1);
        uatomic_init(&b.refcount, 1);
        unsigned held = 1;
        for (int i = 0; i < 1000 && held > 0; i++, scen++, total++) {
            if (rnd() & 1) {
                ubuf_mem_shared_use(&a);
                struct F_w_shared_use f; memset(&f, 0, sizeof(f)); f.v_0 = (char *)&b;
                RUN(w_shared_use, f);
                held++;
            } else {
                bool ra = ubuf_mem_shared_release(&a);
                struct F_w_shared_release f; memset(&f, 0, sizeof(f)); f.v_0 = (char *)&b;
                RUN(w_shared_release, f);
                CHECK(ra == (f.ret != 0), "ubuf_mem_shared_release result");
                held--;
            }
            CHECK(uatomic_load(&a.refcount) == uatomic_load(&b.refcount), "shared refcount");
        }
    }
    /* ---- pool ---- */
    for (int cap = 0; cap <= 2; cap++) {
        struct upool pa, pb;
        struct urefcount ra, rb;
        struct uring_elem ea[3], eb[3];
        memset(ea, 0, sizeof(ea));
        memset(eb, 0, sizeof(eb));
        urefcount_init(&ra, NULL);
        urefcount_init(&rb, NULL);
        upool_init(&pa, &ra, cap, ea, pa2_cb, pfa2_cb);
        upool_init(&pb, &rb, cap, eb, pb_cb, pfb_cb);
        void *ha[8], *hb[8];
        int n = 0;
        for (int i = 0; i < 1000; i++, scen++, total++) {
            if ((rnd() & 1) && n < 8) {
                ha[n] = upool_alloc(&pa, void *);
                struct F_w_upool_alloc f; memset(&f, 0, sizeof(f)); f.v_0 = (char *)&pb;
                RUN(w_upool_alloc, f);
                hb[n] = (void *)f.ret;
                CHECK((ha[n] != NULL) == (hb[n] != NULL), "upool_alloc result");
                n++;
            } else if (n > 0) {
                n--;
                upool_free(&pa, ha[n]);
                struct F_w_upool_free f; memset(&f, 0, sizeof(f)); f.v_0 = (char *)&pb; f.v_1 = (char *)hb[n];
                RUN(w_upool_free, f);
            }
            CHECK(pool_allocs_a == pool_allocs_b && pool_frees_a == pool_frees_b, "pool callback counts");
        }
        while (n > 0) {
            n--;
            upool_free(&pa, ha[n]);
            upool_free(&pb, hb[n]);
        }
        upool_vacuum(&pa);
        upool_vacuum(&pb);
    }
    (void)pa_cb; (void)pf_cb;
    if (bad) {
        printf("SEQZ-VALIDATION FAILED: %lu disagreements in %lu scenarios\n", bad, total);
        return 1;
    }
    printf("SEQZ-VALIDATION OK: %lu operations compared, 0 disagreements\n", total);
    return 0;
}
