/* upump_mock.h -- an event-loop back end for harnesses, built on the REAL
 * lib/upipe/upump_common.c exactly as lib/upump-ev/upump_ev.c is: same control
 * switch, same alloc/free order (stop, common_clean, pool free).  The "underlying
 * loop" is the flag `active` of each pump, flipped only by real_start/real_stop/
 * real_restart; the harness fires a pump with mock_fire(), which refuses to fire an
 * inactive pump (that is what an event loop does).  Protocol assertions of the loop
 * side live here: a watcher is never started twice / stopped while not started, and
 * the keep-alive flag passed to stop equals the one passed to the matching start
 * (libev ev_ref/ev_unref balance). */
#ifndef VERIF_UPUMP_MOCK_H
#define VERIF_UPUMP_MOCK_H
#include "nd.h"
#include "upipe/ubase.h"
#include "upipe/urefcount.h"
#include "upipe/upump.h"
#include "upipe/upump_blocker.h"
#include "upipe/upump_common.h"
#include "lib/upipe/upump_common.c"

#ifndef MOCK_MAX_PUMPS
#define MOCK_MAX_PUMPS 8
#endif

struct upump_mock {
    int event;
    int fd;                 /* for fd pumps */
    bool active;            /* registered in the underlying loop */
    bool start_status;      /* keep-alive flag given at real_start */
    bool freed;
    unsigned n_real_start, n_real_stop, n_real_restart, n_fired;
    struct upump_common common;
};
UBASE_FROM_TO(upump_mock, upump_common, common, common)

struct upump_mock_mgr {
    struct urefcount urefcount;
    int loop_unref;         /* ev_unref - ev_ref balance */
    unsigned live_pumps;
    struct upump *pumps[MOCK_MAX_PUMPS];   /* every pump ever allocated (live ones have !freed) */
    unsigned n_pumps;
    bool dead;
    struct upump_common_mgr common_mgr;
    void *upool_extra;      /* separate allocation: keeps this struct a typed (field-sensitive) object for CBMC */
};
UBASE_FROM_TO(upump_mock_mgr, upump_mgr, upump_mgr, common_mgr.mgr)
UBASE_FROM_TO(upump_mock_mgr, urefcount, urefcount, urefcount)

static inline struct upump_mock *mock_of(struct upump *upump)
{
    return upump_mock_from_common(upump_common_from_upump(upump));
}

static void mock_real_start(struct upump *upump, bool status)
{
    struct upump_mock *m = mock_of(upump);
    struct upump_mock_mgr *mm = upump_mock_mgr_from_upump_mgr(upump->mgr);
    VASSERT(!m->freed, "loop: start on a freed watcher");
    VASSERT(!m->active, "loop: watcher started while already active");
    m->active = true;
    m->start_status = status;
    m->n_real_start++;
    if (!status)
        mm->loop_unref++;
}
static void mock_real_stop(struct upump *upump, bool status)
{
    struct upump_mock *m = mock_of(upump);
    struct upump_mock_mgr *mm = upump_mock_mgr_from_upump_mgr(upump->mgr);
    VASSERT(!m->freed, "loop: stop on a freed watcher");
    VASSERT(m->active, "loop: watcher stopped while not active");
    VASSERT(m->start_status == status, "loop: keep-alive flag at stop differs from the one at start (ev_ref imbalance)");
    m->active = false;
    m->n_real_stop++;
    if (!status)
        mm->loop_unref--;
}
static void mock_real_restart(struct upump *upump, bool status)
{
    struct upump_mock *m = mock_of(upump);
    struct upump_mock_mgr *mm = upump_mock_mgr_from_upump_mgr(upump->mgr);
    VASSERT(!m->freed, "loop: restart on a freed watcher");
    if (!m->active) {
        m->active = true;
        m->start_status = status;
        if (!status)
            mm->loop_unref++;
    }
    m->n_real_restart++;
}

static void *mock_alloc_inner(struct upool *upool)
{
    struct upump_common_mgr *common_mgr = upump_common_mgr_from_upump_pool(upool);
    struct upump_mock *m = malloc(sizeof(struct upump_mock));
    if (m == NULL)
        return NULL;
    m->common.upump.mgr = upump_common_mgr_to_upump_mgr(common_mgr);
    return m;
}
static void mock_free_inner(struct upool *upool, void *m) { (void)upool; free(m); }

static struct upump *mock_alloc(struct upump_mgr *mgr, int event, va_list args)
{
    struct upump_mock_mgr *mm = upump_mock_mgr_from_upump_mgr(mgr);
    struct upump_mock *m = upool_alloc(&mm->common_mgr.upump_pool, struct upump_mock *);
    if (m == NULL)
        return NULL;
    m->event = event;
    m->fd = -1;
    if (event == UPUMP_TYPE_FD_READ || event == UPUMP_TYPE_FD_WRITE)
        m->fd = va_arg(args, int);
    m->active = false;
    m->start_status = true;
    m->freed = false;
    m->n_real_start = m->n_real_stop = m->n_real_restart = m->n_fired = 0;
    struct upump *upump = upump_common_to_upump(&m->common);
    upump_common_init(upump);
    mm->live_pumps++;
    VASSERT(mm->n_pumps < MOCK_MAX_PUMPS, "harness capacity: too many pumps");
    mm->pumps[mm->n_pumps++] = upump;
    return upump;
}
static void mock_free(struct upump *upump)
{
    struct upump_mock_mgr *mm = upump_mock_mgr_from_upump_mgr(upump->mgr);
    struct upump_mock *m = mock_of(upump);
    upump_stop(upump);
    upump_common_clean(upump);
    VASSERT(!m->active, "loop: watcher still active when freed");
    m->freed = true;
    for (unsigned i = 0; i < mm->n_pumps; i++)
        if (mm->pumps[i] == upump)
            mm->pumps[i] = NULL;
    mm->live_pumps--;
    upool_free(&mm->common_mgr.upump_pool, m);
}
static int mock_control(struct upump *upump, int command, va_list args)
{
    switch (command) {
        case UPUMP_START: upump_common_start(upump); return UBASE_ERR_NONE;
        case UPUMP_RESTART: upump_common_restart(upump); return UBASE_ERR_NONE;
        case UPUMP_STOP: upump_common_stop(upump); return UBASE_ERR_NONE;
        case UPUMP_FREE: mock_free(upump); return UBASE_ERR_NONE;
        case UPUMP_GET_STATUS: {
            int *status_p = va_arg(args, int *);
            upump_common_get_status(upump, status_p);
            return UBASE_ERR_NONE;
        }
        case UPUMP_SET_STATUS: {
            int status = va_arg(args, int);
            upump_common_set_status(upump, status);
            return UBASE_ERR_NONE;
        }
        case UPUMP_ALLOC_BLOCKER: {
            struct upump_blocker **p = va_arg(args, struct upump_blocker **);
            *p = upump_common_blocker_alloc(upump);
            return UBASE_ERR_NONE;
        }
        case UPUMP_FREE_BLOCKER: {
            struct upump_blocker *blocker = va_arg(args, struct upump_blocker *);
            upump_common_blocker_free(blocker);
            return UBASE_ERR_NONE;
        }
        default:
            return UBASE_ERR_UNHANDLED;
    }
}
static int mock_mgr_control(struct upump_mgr *mgr, int command, va_list args)
{
    (void)mgr; (void)command; (void)args;
    return UBASE_ERR_UNHANDLED;
}
static void mock_mgr_free(struct urefcount *urefcount)
{
    struct upump_mock_mgr *mm = upump_mock_mgr_from_urefcount(urefcount);
    VASSERT(mm->live_pumps == 0, "pump manager destroyed while pumps are alive");
    upump_common_mgr_clean(upump_mock_mgr_to_upump_mgr(mm));
    mm->dead = true;
    urefcount_clean(urefcount);
    free(mm->upool_extra);
    free(mm);
}
static struct upump_mgr *mock_mgr_alloc(void)
{
    struct upump_mock_mgr *mm = malloc(sizeof(struct upump_mock_mgr));
    VASSUME(mm != NULL);
    mm->upool_extra = malloc(upump_common_mgr_sizeof(0, 0) + 16);
    VASSUME(mm->upool_extra != NULL);
    struct upump_mgr *mgr = upump_mock_mgr_to_upump_mgr(mm);
    mgr->signature = UBASE_FOURCC('m', 'o', 'c', 'k');
    urefcount_init(upump_mock_mgr_to_urefcount(mm), mock_mgr_free);
    mm->common_mgr.mgr.refcount = upump_mock_mgr_to_urefcount(mm);
    mm->common_mgr.mgr.upump_alloc = mock_alloc;
    mm->common_mgr.mgr.upump_control = mock_control;
    mm->common_mgr.mgr.upump_mgr_control = mock_mgr_control;
    mm->loop_unref = 0;
    mm->live_pumps = 0;
    mm->n_pumps = 0;
    mm->dead = false;
    upump_common_mgr_init(mgr, 0, 0, mm->upool_extra, mock_real_start, mock_real_stop, mock_real_restart,
                          mock_alloc_inner, mock_free_inner);
    return mgr;
}
/* fire a pump as the loop would: only an active watcher can fire */
static inline bool mock_can_fire(struct upump *upump)
{
    return upump != NULL && !mock_of(upump)->freed && mock_of(upump)->active;
}
static inline void mock_fire(struct upump *upump)
{
    VASSERT(mock_can_fire(upump), "harness: firing an inactive watcher");
    mock_of(upump)->n_fired++;
    upump_common_dispatch(upump);
}
#endif
