#!/usr/bin/env python3
"""Driver: ./run.py <Cnn> [--tier quick|thorough] | --replay <file> | --setup"""
import argparse
import importlib
import os
import sys

sys.path.insert(0, os.path.dirname(os.path.abspath(__file__)))
from vlib import core


def setup():
    import shutil
    ok = True
    for t in ("cbmc", "goto-cc", "goto-instrument", "gcc", "clang-14"):
        if shutil.which(t) is None:
            print("missing tool:", t)
            ok = False
    cfg = os.path.join(core.REPO, "include/upipe/config.h")
    if not os.path.exists(cfg):
        shutil.copy(os.path.join(core.SHIM, "config.h.fallback"), cfg)
        print("restored", cfg, "from shim/config.h.fallback")
    os.makedirs(core.EVIDENCE, exist_ok=True)
    os.makedirs(core.REPLAYS, exist_ok=True)
    return 0 if ok else 1


def main():
    ap = argparse.ArgumentParser()
    ap.add_argument("prop", nargs="?")
    ap.add_argument("--tier", default=os.environ.get("VERIF_TIER", "quick"))
    ap.add_argument("--replay")
    ap.add_argument("--setup", action="store_true")
    ap.add_argument("--only", help="substring filter on query names (debugging)")
    ap.add_argument("--every", type=int, help="debugging: keep every N-th query only (smoke run of a big tier; evidence goes to .partial)")
    a = ap.parse_args()
    if a.setup:
        return setup()
    if a.replay:
        return core.replay_file(a.replay)
    if not a.prop:
        ap.error("property id required")
    mod = importlib.import_module("checks." + a.prop)
    queries, meta = mod.build(a.tier)
    if a.only:
        queries = [q for q in queries if a.only in q.name]
        core.EVIDENCE = os.path.join(core.VERIF, "evidence", ".partial")   # never overwrite the registered evidence
    if a.every:
        queries = queries[::a.every]
        core.EVIDENCE = os.path.join(core.VERIF, "evidence", ".partial")
    return core.run_check(a.prop, a.tier, queries, meta)


if __name__ == "__main__":
    sys.exit(main())
