/* Minimal stand-in for biTStream's <bitstream/mpeg/psi.h> (absent from this image), written from ISO/IEC 13818-1
 * 2.4.4: only what lib/upipe-ts/upipe_ts_psi_merge.c uses.  TRUSTED BASE of C16 (an external dependency, not part
 * of Upipe); kept deliberately tiny. */
#ifndef VERIF_BITSTREAM_PSI_H
#define VERIF_BITSTREAM_PSI_H
#include <stdint.h>
#include <stdbool.h>
#define PSI_HEADER_SIZE         3
#define PSI_HEADER_SIZE_SYNTAX1 8
#define PSI_CRC_SIZE            4
#define PSI_MAX_SIZE            1021
#define PSI_PRIVATE_MAX_SIZE    4093
static inline uint16_t psi_get_length(const uint8_t *p_section)
{
    return ((p_section[1] & 0xf) << 8) | p_section[2];      /* section_length: 12 bits */
}
static inline bool psi_get_syntax(const uint8_t *p_section)
{
    return !!(p_section[1] & 0x80);                          /* section_syntax_indicator */
}
/* a long-form section must at least hold its extended header and CRC */
static inline bool psi_validate(const uint8_t *p_section)
{
    if (psi_get_syntax(p_section) &&
        psi_get_length(p_section) < PSI_HEADER_SIZE_SYNTAX1 - PSI_HEADER_SIZE + PSI_CRC_SIZE)
        return false;
    return true;
}
#endif
