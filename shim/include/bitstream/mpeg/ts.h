/* Minimal stand-in for biTStream's <bitstream/mpeg/ts.h> (absent from this image), written from ISO/IEC 13818-1
 * 2.4.3.2 / 2.4.3.4: only what the small lib/upipe-ts units use.  TRUSTED BASE (external dependency). */
#ifndef VERIF_BITSTREAM_TS_H
#define VERIF_BITSTREAM_TS_H
#include <stdint.h>
#include <stdbool.h>
#define TS_SIZE             188
#define TS_HEADER_SIZE      4
#define TS_HEADER_SIZE_AF   6
#define TS_HEADER_SIZE_PCR  12
#define TS_SYNC             0x47
static inline bool ts_get_transporterror(const uint8_t *p) { return !!(p[1] & 0x80); }
static inline bool ts_get_unitstart(const uint8_t *p) { return !!(p[1] & 0x40); }
static inline uint16_t ts_get_pid(const uint8_t *p) { return ((p[1] & 0x1f) << 8) | p[2]; }
static inline uint8_t ts_get_cc(const uint8_t *p) { return p[3] & 0xf; }
static inline bool ts_has_payload(const uint8_t *p) { return !!(p[3] & 0x10); }
static inline bool ts_has_adaptation(const uint8_t *p) { return !!(p[3] & 0x20); }
static inline uint8_t ts_get_adaptation(const uint8_t *p) { return p[4]; }
static inline bool tsaf_has_discontinuity(const uint8_t *p) { return !!(p[5] & 0x80); }
static inline bool tsaf_has_randomaccess(const uint8_t *p) { return !!(p[5] & 0x40); }
static inline bool tsaf_has_pcr(const uint8_t *p) { return !!(p[5] & 0x10); }
static inline uint64_t tsaf_get_pcr(const uint8_t *p)
{
    return ((uint64_t)p[6] << 25) | (p[7] << 17) | (p[8] << 9) | (p[9] << 1) | (p[10] >> 7);
}
static inline uint64_t tsaf_get_pcrext(const uint8_t *p) { return ((p[10] & 1) << 8) | p[11]; }
/* continuity counter helpers (ISO 13818-1 2.4.3.3: the counter increments with each packet carrying payload;
 * a duplicate carries the same value) */
static inline bool ts_check_duplicate(uint8_t cc, uint8_t last_cc) { return last_cc == cc; }
static inline bool ts_check_discontinuity(uint8_t cc, uint8_t last_cc) { return (last_cc + 17 - cc) % 16; }
#endif
