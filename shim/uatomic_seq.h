/* uatomic_seq.h -- replaces upipe/uatomic.h in SEQUENTIAL CBMC harnesses.
 * Single thread => plain load/store/RMW have identical semantics.  The real
 * uatomic.h is the subject of C07-C09 (IR sequentializer), not of this shim. */
#ifndef _UPIPE_UATOMIC_H_
#define _UPIPE_UATOMIC_H_
#include <stdint.h>
#include <stdbool.h>
typedef uint32_t uatomic_uint32_t;
typedef void *uatomic_ptr_t;
static inline void uatomic_init(uatomic_uint32_t *obj, uint32_t value) { *obj = value; }
static inline void uatomic_store(uatomic_uint32_t *obj, uint32_t value) { *obj = value; }
static inline uint32_t uatomic_load(uatomic_uint32_t *obj) { return *obj; }
static inline bool uatomic_compare_exchange(uatomic_uint32_t *obj, uint32_t *expected, uint32_t desired)
{
    if (*obj == *expected) { *obj = desired; return true; }
    *expected = *obj;
    return false;
}
static inline void uatomic_clean(uatomic_uint32_t *obj) { (void)obj; }
static inline void uatomic_ptr_init(uatomic_ptr_t *obj, void *value) { *obj = value; }
static inline void uatomic_ptr_store(uatomic_ptr_t *obj, void *value) { *obj = value; }
static inline void *uatomic_ptr_load(uatomic_ptr_t *obj) { return *obj; }
static inline bool uatomic_ptr_compare_exchange(uatomic_ptr_t *obj, void **expected, void *desired)
{
    if (*obj == *expected) { *obj = desired; return true; }
    *expected = *obj;
    return false;
}
static inline void uatomic_ptr_clean(uatomic_ptr_t *obj) { (void)obj; }
static inline uint32_t uatomic_fetch_add(uatomic_uint32_t *obj, uint32_t operand)
{
    uint32_t v = *obj; *obj = v + operand; return v;
}
static inline uint32_t uatomic_fetch_sub(uatomic_uint32_t *obj, uint32_t operand)
{
    uint32_t v = *obj; *obj = v - operand; return v;
}
#define uatomic_ptr_load_ptr(obj, type) (type)uatomic_ptr_load(obj)
#define uatomic_ptr_compare_exchange_ptr(obj, expected, desired) \
    uatomic_ptr_compare_exchange(obj, (void **)expected, desired)
#endif
