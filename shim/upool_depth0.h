/* upool_depth0.h -- replaces upipe/upool.h in sequential CBMC harnesses by the
 * behaviour of a pool of depth 0: alloc always calls alloc_cb, free always calls
 * free_cb, reference counting on the owner is kept.  That a real depth-0 ulifo
 * never stores is one of C07's sequential obligations; depth>0 recycling is
 * covered by C01's recycling harness with the real upool.h. */
#ifndef _UPIPE_UPOOL_H_
#define _UPIPE_UPOOL_H_
#include "upipe/ubase.h"
#include "upipe/urefcount.h"
struct upool;
typedef void *(*upool_alloc_cb)(struct upool *);
typedef void (*upool_free_cb)(struct upool *, void *);
struct upool {
    struct urefcount *refcount;
    upool_alloc_cb alloc_cb;
    upool_free_cb free_cb;
};
#define upool_sizeof(length) ((size_t)0)
static inline void upool_init(struct upool *upool, struct urefcount *refcount,
                              uint16_t length, void *extra,
                              upool_alloc_cb alloc_cb, upool_free_cb free_cb)
{
    (void)length; (void)extra;
    upool->refcount = refcount;
    upool->alloc_cb = alloc_cb;
    upool->free_cb = free_cb;
}
static inline struct upool *upool_use(struct upool *upool)
{
    if (upool == NULL) return NULL;
    urefcount_use(upool->refcount);
    return upool;
}
static inline void upool_release(struct upool *upool)
{
    if (upool != NULL) urefcount_release(upool->refcount);
}
/* VERIF_POOL_NO_MGR_REF: the pool does not take a reference on its manager for every object.
 * Used by harnesses whose subject is not object lifetime (C01 is): with merged symbolic states
 * CBMC cannot see that the manager's count stays > 0 and would explore the manager's destructor
 * (recursively) at every free.  Native replays always use the real upool.h. */
static inline void *upool_alloc_internal(struct upool *upool)
{
    void *obj = upool->alloc_cb(upool);
#ifndef VERIF_POOL_NO_MGR_REF
    if (obj != NULL) upool_use(upool);
#endif
    return obj;
}
#define upool_alloc(upool, type) (type)upool_alloc_internal(upool)
static inline void upool_free(struct upool *upool, void *obj)
{
    upool->free_cb(upool, obj);
#ifndef VERIF_POOL_NO_MGR_REF
    upool_release(upool);
#endif
}
static inline void upool_vacuum(struct upool *upool) { (void)upool; }
static inline void upool_clean(struct upool *upool) { (void)upool; }
#endif
