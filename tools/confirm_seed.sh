#!/bin/bash
# confirm_seed.sh <worktree> <seed-id> <property> : confirm a sub-agent's seeded change myself, store it under
# /verif/seeded/<seed-id>/, then run the property's quick check against /repo with the change applied.
wt=$1; id=$2; prop=$3
out=/verif/seeded/$id; mkdir -p $out
cd $wt || exit 2
git checkout -q -- . ; make -j8 >/dev/null 2>&1
bash seed/build_demo.sh >/dev/null 2>&1; demo_orig=$?
git apply seed/patch.diff || { echo "patch does not apply"; exit 2; }
make -j8 >/dev/null 2>&1; build=$?
bash seed/build_demo.sh >/dev/null 2>&1; demo_mut=$?
make -j8 check > /tmp/check_$id.log 2>&1
pass=$(grep -E "^# PASS:" /tmp/check_$id.log | tail -1 | awk '{print $3}')
fail=$(grep -E "^# FAIL:" /tmp/check_$id.log | tail -1 | awk '{print $3}')
git checkout -q -- . ; rm -f /tmp/check_$id.log
cp seed/patch.diff seed/demo.c seed/build_demo.sh seed/notes.md $out/ 2>/dev/null
# my check against the change: by default applied to /repo itself and reverted straight afterwards; with SEED_VIA_WORKTREE=1
# (used while a background thorough run is reading /repo) against the sub-agent's own worktree with the patch applied
cd /verif
if [ -n "$SEED_VIA_WORKTREE" ]; then
  git -C $wt apply $out/patch.diff || { echo "patch does not apply to worktree"; exit 2; }
  VERIF_REPO=$wt python3 run.py $prop --tier quick --only "" > $out/check_output.txt 2>&1; rc=$?
  git -C $wt checkout -q -- .
else
  git -C /repo apply $out/patch.diff || { echo "patch does not apply to /repo"; exit 2; }
  python3 run.py $prop --tier quick --only "" > $out/check_output.txt 2>&1; rc=$?
  git -C /repo checkout -- .
fi
nviol=$(grep -c "^VIOLATION" $out/check_output.txt)
cat > $out/meta.json <<EOF
{
 "seed_id": "$id",
 "property": "$prop",
 "confirmed_by_me": {"builds_with_change": $([ $build = 0 ] && echo true || echo false), "test_suite_pass_with_change": ${pass:-0}, "test_suite_fail_with_change": ${fail:-0},
   "demo_exit_original": $demo_orig, "demo_exit_with_change": $demo_mut},
 "ran": ["bash seed/build_demo.sh (original, then with patch)", "make -j8 check (with patch)", "python3 run.py $prop --tier quick (patch applied to /repo, reverted afterwards)"],
 "check_exit_code": $rc, "check_violation_lines": $nviol,
 "detected": $([ $rc = 1 ] && echo true || echo false),
 "needs_to_manifest": "see notes.md"
}
EOF
echo "$id: build=$build pass=$pass fail=$fail demo_orig=$demo_orig demo_mut=$demo_mut check_rc=$rc violations=$nviol"
