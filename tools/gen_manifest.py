#!/usr/bin/env python3
"""Generate /verif/MANIFEST.json from the table below (single source of truth)."""
import json, os

CLAIMED = {}
NA = {}


def claim(pid, text, note, technique, design_ref, thorough=True):
    CLAIMED[pid] = dict(text=text, note=note, technique=technique, design_ref=design_ref, thorough=thorough)


claim("C18",
      "Bounded model checking of the real ubits.h and ubuf_block_stream.h (over the real ubuf_block_mem manager): for ALL field "
      "widths/values and every buffer size 0..4*fields+1 the writer output equals an independent MSB-first reference packer, byte "
      "count = ceil(bits/8), the reader inverts it, too-small buffers / reads past the end are reported, and every memory access stays "
      "inside the exact-size buffer object (CBMC pointer checks). The block bit-stream reader is decided by induction on the number of "
      "fields (base: init_bits establishes the reader invariant for every start bit; step: from any invariant state one field of symbolic "
      "width returns the reference bits and re-establishes the invariant) for every 3-way segmentation of the bytes. SAT verdict over all "
      "values within the bounds; not a proof beyond them.",
      "Trusted: CBMC 6.11 C semantics, harness reference packer/extractor (20 lines), uatomic_seq.h/upool_depth0.h shims in the CBMC "
      "build (native replays use the real headers). Bounds: 2 (quick) / 3 (thorough) writer fields, 3/4-octet segmented blocks, reader "
      "widths <= 24 as the code's own assertion requires. Allocation failure out of scope.",
      "CBMC bounded model checking of real C (goto-cc), case split on buffer size/segmentation, inductive step for the reader",
      "DESIGN.md 4/C18")

ALL = ["C%02d" % i for i in range(1, 21)]
PENDING = "check not built yet in this round (see DESIGN.md section 4 for the planned encoding)"

manifest = {
    "version": 1,
    "setup_cmd": "python3 run.py --setup",
    "hooks": {
        "guard": "UPIPE_VERIF",
        "enable": "checks compile /repo sources through goto-cc / clang / gcc with -DUPIPE_VERIF; no build-system change",
        "baseline_off_cmd": "make -C /repo -j8 check",
        "source_commits": [],
        "add_only": True,
    },
    "engines": [
        {"name": "cbmc-harness", "path": "vlib/core.py", "serves_properties": sorted(CLAIMED),
         "kind_free_text": "goto-cc builds harness + real /repo sources into one goto binary per query; cbmc 6.11 (SAT) decides; "
                           "counterexamples are replayed on a native ASan/UBSan build of the same harness against the real headers"},
    ],
    "checks": [],
    "not_applicable": [],
    "notes": "All checks: python3 run.py <id> --tier quick|thorough; evidence rewritten each run; exit 0 pass, 1 VIOLATION, 2 inconclusive "
             "(timeout/oom/vacuity guard) - fail closed. known_findings.json lists genuine defects (fixed ones suppress nothing).",
}
for pid in ALL:
    if pid in CLAIMED:
        c = CLAIMED[pid]
        e = {
            "property_id": pid,
            "quick_cmd": "python3 run.py %s --tier quick" % pid,
            "evidence_file": "/verif/evidence/%s.json" % pid,
            "replay_cmd_template": "python3 run.py --replay {path}",
            "engine": "cbmc-harness",
            "level_claimed": {"category": "model_checking", "text": c["text"], "design_ref": c["design_ref"]},
            "level_note": c["note"],
            "technique": c["technique"],
        }
        if c["thorough"]:
            e["thorough_cmd"] = "python3 run.py %s --tier thorough" % pid
        manifest["checks"].append(e)
    else:
        manifest["not_applicable"].append({"property_id": pid, "reason": NA.get(pid, PENDING)})

with open(os.path.join(os.path.dirname(os.path.dirname(os.path.abspath(__file__))), "MANIFEST.json"), "w") as f:
    json.dump(manifest, f, indent=1)
print("wrote MANIFEST.json:", len(manifest["checks"]), "checks")
