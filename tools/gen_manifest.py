#!/usr/bin/env python3
"""Generate /verif/MANIFEST.json from the table below (single source of truth)."""
import json, os

CLAIMED = {}
NA = {}


def claim(pid, text, note, technique, design_ref, thorough=True):
    CLAIMED[pid] = dict(text=text, note=note, technique=technique, design_ref=design_ref, thorough=thorough)


import glob, importlib, sys
ROOT = os.path.dirname(os.path.dirname(os.path.abspath(__file__)))
sys.path.insert(0, ROOT)
for f in sorted(glob.glob(os.path.join(ROOT, "checks", "C*.py"))):
    pid = os.path.basename(f)[:-3]
    mod = importlib.import_module("checks." + pid)
    c = getattr(mod, "CLAIM", None)
    if c:
        claim(pid, c["text"], c["note"], c["technique"], c.get("design_ref", "DESIGN.md 4/" + pid), c.get("thorough", True))
    elif getattr(mod, "NA", None):
        NA[pid] = mod.NA

ALL = ["C%02d" % i for i in range(1, 21)]
PENDING = "check not built yet in this round (see DESIGN.md section 4 for the planned encoding)"

manifest = {
    "version": 1,
    "setup_cmd": "python3 run.py --setup",
    "hooks": {
        "guard": "UPIPE_VERIF",
        "enable": "checks compile /repo sources through goto-cc / clang / gcc with -DUPIPE_VERIF; no build-system change",
        "baseline_off_cmd": "make -C /repo -j8 check",
        "source_commits": ["7bad5b2"],
        "add_only": True,
    },
    "engines": [
        {"name": "cbmc-harness", "path": "vlib/core.py", "serves_properties": sorted(CLAIMED),
         "kind_free_text": "goto-cc builds harness + real /repo sources into one goto binary per query; cbmc 6.11 (SAT) decides; "
                           "counterexamples are replayed on a native ASan/UBSan build of the same harness against the real headers"},
    ],
    "checks": [],
    "not_applicable": [],
    "notes": "All checks: python3 run.py <id> --tier quick|thorough; evidence rewritten each run; exit 0 pass, 1 VIOLATION, 2 inconclusive "
             "(timeout/oom/vacuity guard) - fail closed. known_findings.json lists genuine defects (fixed ones suppress nothing).",
}
for pid in ALL:
    if pid in CLAIMED:
        c = CLAIMED[pid]
        e = {
            "property_id": pid,
            "quick_cmd": "python3 run.py %s --tier quick" % pid,
            "evidence_file": "/verif/evidence/%s.json" % pid,
            "replay_cmd_template": "python3 run.py --replay {path}",
            "engine": "cbmc-harness",
            "level_claimed": {"category": "model_checking", "text": c["text"], "design_ref": c["design_ref"]},
            "level_note": c["note"],
            "technique": c["technique"],
        }
        if c["thorough"]:
            e["thorough_cmd"] = "python3 run.py %s --tier thorough" % pid
        manifest["checks"].append(e)
    else:
        manifest["not_applicable"].append({"property_id": pid, "reason": NA.get(pid, PENDING)})

with open(os.path.join(os.path.dirname(os.path.dirname(os.path.abspath(__file__))), "MANIFEST.json"), "w") as f:
    json.dump(manifest, f, indent=1)
print("wrote MANIFEST.json:", len(manifest["checks"]), "checks")
