#!/usr/bin/env python3
"""Apply a textual mutation to a file in /repo, run a check, restore the file.
usage: trymut.py <repo-relative-file> <old> <new> <Cnn> [extra run.py args...]"""
import subprocess, sys, os
f, old, new, prop = sys.argv[1:5]
extra = sys.argv[5:]
path = os.path.join("/repo", f)
src = open(path).read()
if src.count(old) < 1:
    sys.exit("pattern not found")
open(path, "w").write(src.replace(old, new, 1))
try:
    r = subprocess.run(["python3", "/verif/run.py", prop, "--only", ""] + extra, cwd="/verif", capture_output=True, text=True)
    lines = r.stdout.strip().splitlines()
    v = [l for l in lines if l.startswith("VIOLATION")]
    print("rc=%d violations=%d" % (r.returncode, len(v)))
    for l in lines[-6:]:
        print("  ", l[:300])
finally:
    open(path, "w").write(src)
    subprocess.run(["git", "-C", "/repo", "diff", "--stat"])
