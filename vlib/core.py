"""Shared machinery: goto-cc / cbmc invocation, result + trace parsing, native
replay, witness twins, known findings, evidence.  See DESIGN.md section 2."""
import concurrent.futures as cf
import hashlib
import json
import os
import re
import resource
import shutil
import signal
import subprocess
import sys
import tempfile
import time
from dataclasses import dataclass, field

VERIF = os.path.dirname(os.path.dirname(os.path.abspath(__file__)))
REPO = os.environ.get("VERIF_REPO", "/repo")
HARNESS = os.path.join(VERIF, "harness")
SHIM = os.path.join(VERIF, "shim")
EVIDENCE = os.path.join(VERIF, "evidence")
REPLAYS = os.path.join(VERIF, "replays")
MEM_LIMIT = int(os.environ.get("VERIF_MEM_GB", "24")) * (1 << 30)
JOBS = int(os.environ.get("VERIF_JOBS", str(os.cpu_count() or 8)))

BASE_FLAGS = [
    "--drop-unused-functions", "--slice-formula",
    "--max-field-sensitivity-array-size", "512",
    "--object-bits", "12", "--no-malloc-may-fail", "--no-signed-overflow-check",
]

# Solver properties that are not violations of any C01-C20 statement: merely FORMING an
# out-of-bounds pointer for a comparison (`buffer + 4 > buffer_end`).  No memory is touched,
# no sanitizer can confirm it, and it is the code's idiom for its own bounds test.  Counted
# and listed in the evidence as notes, never as violations (DESIGN.md 2.2).
IGNORED_DESCRIPTIONS = re.compile(r"^pointer relation: pointer outside object bounds")

INCLUDES = ["-I" + SHIM + "/include", "-I" + REPO + "/include", "-I" + REPO, "-I" + HARNESS, "-I" + SHIM]


@dataclass
class Query:
    name: str
    harness: str
    defines: list = field(default_factory=list)
    unwind: int = 4
    unwindset: list = field(default_factory=list)
    flags: list = field(default_factory=list)
    shims: list = field(default_factory=list)      # header names under shim/ pre-included for CBMC
    replay_shims: list = None                      # shims also used natively (default: none)
    timeout: int = 300
    witness: bool = True
    replay_witness: bool = True
    leak: bool = False
    sample: object = None
    entry: str = "main"
    expect_fail: bool = False                      # known-finding twin: must FAIL
    kf: str = None
    nontrivial: bool = True
    sources: list = field(default_factory=list)    # extra .c files (relative to REPO or absolute)
    no_unwinding_assertions: bool = False
    backend: list = field(default_factory=list)    # e.g. ["--external-sat-solver","kissat"]
    stretch: bool = False                          # undecided (timeout/oom) is reported, not fatal
    fp_restrict: bool = False                      # type-exact function-pointer targets (vlib/fprestrict.py)
    seqz: list = None                              # extra -D flags for harness/conc_units.c: generate seqz_gen.c (vlib/seqz.py)


@dataclass
class Result:
    query: Query
    status: str = "ERROR"          # PASS FAIL TIMEOUT OOM ERROR
    failing: list = field(default_factory=list)
    n_props: int = 0
    n_success: int = 0
    vccs: int = 0
    vccs_remaining: int = 0
    variables: int = 0
    clauses: int = 0
    steps: int = 0
    solver_s: float = 0.0
    wall_s: float = 0.0
    rss_mb: int = 0
    functions: list = field(default_factory=list)
    witness: str = "n/a"           # reached / unreachable / n/a / error
    witness_vector: list = None
    witness_replayed: bool = False
    vector: list = None
    replay: dict = None
    detail: str = ""
    notes: list = field(default_factory=list)
    ignored_props: bool = False
    keep_args: list = field(default_factory=list)


def _limits():
    resource.setrlimit(resource.RLIMIT_AS, (MEM_LIMIT, MEM_LIMIT))
    os.setsid()


def run(cmd, timeout, cwd=None, env=None, limit=True):
    """Run cmd; returns (rc, stdout, stderr, wall, maxrss_mb). rc = 'timeout' on timeout."""
    t0 = time.time()
    p = subprocess.Popen(cmd, stdout=subprocess.PIPE, stderr=subprocess.PIPE, cwd=cwd, env=env,
                         preexec_fn=_limits if limit else os.setsid)
    try:
        out, err = p.communicate(timeout=timeout)
        rc = p.returncode
    except subprocess.TimeoutExpired:
        try:
            os.killpg(p.pid, signal.SIGKILL)
        except ProcessLookupError:
            pass
        out, err = p.communicate()
        rc = "timeout"
    ru = resource.getrusage(resource.RUSAGE_CHILDREN)
    return rc, out.decode("utf-8", "replace"), err.decode("utf-8", "replace"), time.time() - t0, ru.ru_maxrss // 1024


def scratch_dir():
    base = os.environ.get("VERIF_SCRATCH")
    if base:
        os.makedirs(base, exist_ok=True)
        return tempfile.mkdtemp(prefix="q-", dir=base)
    return tempfile.mkdtemp(prefix="verif-", dir="/var/tmp")


def srcs(q):
    out = [os.path.join(HARNESS, q.harness)]
    for s in q.sources:
        out.append(s if os.path.isabs(s) else os.path.join(REPO, s))
    return out


def ensure_seqz(q, workdir):
    """clang -O1 -> LLVM IR of the real lock-free headers -> resumable C (regenerated from /repo on every run)"""
    gen = os.path.join(workdir, "seqz_gen.c")
    if os.path.exists(gen):
        return
    from vlib import seqz
    ll = os.path.join(workdir, "conc_units.ll")
    cmd = ["clang-14", "-O1", "-fno-unroll-loops", "-fno-vectorize", "-fno-slp-vectorize", "-mllvm", "-inline-threshold=100000",
           "-DUPIPE_VERIF", "-I" + REPO + "/include", "-I" + REPO, "-S", "-emit-llvm"] + \
          ["-D" + d for d in q.seqz if not d.startswith(("ONLY=", "IMMUTABLE="))] + \
          [os.path.join(HARNESS, "conc_units.c"), "-o", ll]
    rc, so, se, w, _ = run(cmd, 120, limit=False)
    if rc != 0:
        raise RuntimeError("clang failed on conc_units.c: " + se[-1500:])
    only = None
    immutable = []
    for d in q.seqz:
        if d.startswith("ONLY="):
            only = d[5:].split(",")
        if d.startswith("IMMUTABLE="):
            immutable = d[10:].split(",")
    rc, so, se, w, _ = run(["clang-14", "-DUPIPE_VERIF", "-I" + REPO + "/include", "-I" + REPO, "-Xclang", "-fdump-record-layouts",
                            "-O1", "-S", "-emit-llvm", "-o", os.devnull] + ["-D" + d for d in q.seqz if not d.startswith(("ONLY=", "IMMUTABLE="))] +
                           [os.path.join(HARNESS, "conc_units.c")], 120, limit=False)
    layouts = seqz.parse_layouts(so) if rc == 0 else {}
    src, names, ext = seqz.translate(open(ll).read(), only, immutable, layouts)
    if only and sorted(names) != sorted(only):
        raise RuntimeError("seqz: functions %s not found in the IR (got %s)" % (only, names))
    with open(gen, "w") as f:
        f.write(src + "\n")


def seqz_validate():
    """translation validation (every run): generated code vs the real inline functions, natively"""
    wd = scratch_dir()
    try:
        q = Query(name="seqz-validate", harness="seqz_validate.c", seqz=[])
        ensure_seqz(q, wd)
        binp = os.path.join(wd, "val")
        rc, so, se, w, _ = run(["gcc", "-std=gnu99", "-O1", "-w", "-I" + wd, "-I" + REPO + "/include", "-I" + REPO,
                                os.path.join(HARNESS, "seqz_validate.c"), "-o", binp, "-lpthread"], 300, limit=False)
        if rc != 0:
            return False, "validator build failed: " + se[-800:]
        rc, so, se, w, _ = run([binp], 120, limit=False)
        return rc == 0 and "SEQZ-VALIDATION OK" in so, (so.strip().splitlines() or [se[-300:]])[-1]
    finally:
        shutil.rmtree(wd, ignore_errors=True)


def goto_cc(q, out, extra_defs=()):
    cmd = ["goto-cc"] + INCLUDES + ["-DUPIPE_VERIF", "-DVERIF_CBMC"]
    if q.seqz is not None:
        ensure_seqz(q, os.path.dirname(out))
        cmd += ["-I" + os.path.dirname(out)]
    for s in q.shims:
        cmd += ["-include", os.path.join(SHIM, s)]
    for d in list(q.defines) + list(extra_defs):
        cmd.append("-D" + d)
    cmd += srcs(q) + ["-o", out]
    rc, so, se, w, _ = run(cmd, 300)
    if rc != 0:
        raise RuntimeError("goto-cc failed for %s: %s" % (q.name, (se or so)[-2000:]))
    if q.fp_restrict:
        from vlib import fprestrict
        pre = ["gcc", "-E", "-w"] + cmd[1:-2 - len(srcs(q))] + srcs(q)
        rc, so, se, w, _ = run(pre, 120, limit=False)
        if rc != 0:
            raise RuntimeError("preprocessing failed for %s: %s" % (q.name, se[-1000:]))
        tmp = out + ".fp"
        newbin, res = fprestrict.apply(out, tmp, so)
        if newbin != out:
            os.replace(tmp, out)


def native_build(q, out, extra_defs=()):
    cmd = ["gcc", "-std=gnu99", "-g", "-O0", "-w", "-fsanitize=address,undefined",
           "-fno-sanitize-recover=undefined", "-fno-omit-frame-pointer",
           "-DVERIF_REPLAY", "-DUPIPE_VERIF"] + INCLUDES
    if q.seqz is not None:
        ensure_seqz(q, os.path.dirname(out))
        cmd += ["-I" + os.path.dirname(out)]
    for s in (q.replay_shims or []):
        cmd += ["-include", os.path.join(SHIM, s)]
    for d in list(q.defines) + list(extra_defs):
        cmd.append("-D" + d)
    cmd += srcs(q) + ["-o", out, "-lpthread", "-lm"]
    rc, so, se, w, _ = run(cmd, 300, limit=False)
    if rc != 0:
        raise RuntimeError("native build failed for %s: %s" % (q.name, (se or so)[-3000:]))


_stat_res = [
    (re.compile(r"size of program expression: (\d+) steps"), "steps"),
    (re.compile(r"Generated (\d+) VCC\(s\), (\d+) remaining"), "vccs"),
    (re.compile(r"(\d+) variables, (\d+) clauses"), "vars"),
    (re.compile(r"Runtime Solver: ([0-9.eE+-]+)s"), "solver"),
]


def parse_cbmc_json(text, res):
    try:
        data = json.loads(text)
    except Exception:
        # truncated output (timeout / kill): salvage nothing
        return None
    results = None
    for o in data:
        if not isinstance(o, dict):
            continue
        mt = o.get("messageText")
        if mt:
            for rx, k in _stat_res:
                m = rx.search(mt)
                if not m:
                    continue
                if k == "steps":
                    res.steps = max(res.steps, int(m.group(1)))
                elif k == "vccs":
                    res.vccs = max(res.vccs, int(m.group(1)))
                    res.vccs_remaining = max(res.vccs_remaining, int(m.group(2)))
                elif k == "vars":
                    res.variables = max(res.variables, int(m.group(1)))
                    res.clauses = max(res.clauses, int(m.group(2)))
                elif k == "solver":
                    res.solver_s += float(m.group(1))
            if o.get("messageType") == "ERROR":
                res.detail += mt[:500] + "\n"
        if "result" in o:
            results = o["result"]
    return results


def trace_vector(trace):
    """Extract [(seq, value)] from a CBMC json trace: the k-th function-call step of nd_raw
    is input k; its value is the assignment to nd_v before the matching return (absent if
    the slicer found it irrelevant: the replay then uses 0)."""
    vec = []
    seq = 0
    inside = False
    for s in trace:
        t = s.get("stepType")
        if t == "function-call" and (s.get("function") or {}).get("displayName") == "nd_raw":
            seq += 1
            inside = True
        elif t == "function-return" and (s.get("function") or {}).get("displayName") == "nd_raw":
            inside = False
        elif t == "assignment" and inside and s.get("lhs") == "nd_v":
            v = s.get("value") or {}
            b = v.get("binary")
            if b is None:
                try:
                    val = int(re.sub(r"[^0-9-]", "", v.get("data", "0"))) & ((1 << 64) - 1)
                except ValueError:
                    continue
            else:
                val = int(b, 2)
            vec = [x for x in vec if x[0] != seq] + [(seq, val)]
    return vec


def cbmc_cmd(q, binary, trace=False, props=None, witness=False):
    cmd = ["cbmc", binary, "--function", q.entry, "--json-ui", "--verbosity", "8"] + BASE_FLAGS
    cmd += ["--unwind", str(q.unwind)]
    if q.unwindset:
        cmd += ["--unwindset", ",".join(q.unwindset)]
    if witness:
        cmd += ["--no-standard-checks", "--trace"]
    else:
        if not q.no_unwinding_assertions:
            cmd += ["--unwinding-assertions"]
        cmd += q.flags
        if q.leak:
            cmd += ["--memory-leak-check"]
        if trace:
            cmd += ["--trace"]
        for p in props or []:
            cmd += ["--property", p]
    cmd += q.backend
    return cmd


def native_replay(q, workdir, vector, extra_defs=(), tag="r"):
    """Build the harness natively against the real sources and run it on vector.
    Returns dict(rc, stderr_tail, reproduced, witness)."""
    binp = os.path.join(workdir, "native_" + tag)
    native_build(q, binp, extra_defs)
    vf = os.path.join(workdir, "vector_" + tag + ".txt")
    with open(vf, "w") as f:
        for s, v in vector:
            f.write("%d %x\n" % (s, v))
    env = dict(os.environ)
    env["VERIF_VECTOR"] = vf
    env["ASAN_OPTIONS"] = "exitcode=89:detect_leaks=%d:abort_on_error=0" % (1 if q.leak else 0)
    env["UBSAN_OPTIONS"] = "halt_on_error=1:exitcode=90:print_stacktrace=1"
    rc, so, se, w, _ = run([binp], 30, env=env, limit=False)
    kind = {77: "assume-false", 88: "harness-assert", 89: "asan", 90: "ubsan", 0: "clean",
            "timeout": "hang", -6: "abort(assert)", -11: "segv", -14: "alarm(hang)", 1: "ubsan/exit1"}.get(rc, "rc=%s" % rc)
    return {"rc": rc if isinstance(rc, int) else -999, "kind": kind,
            "reproduced": rc not in (0, 77),
            "witness": "REPLAY-WITNESS-REACHED" in se and rc == 0,
            "stderr_tail": se[-1500:]}


def list_functions(binary, workdir):
    out = os.path.join(workdir, "dropped.goto")
    rc, so, se, w, _ = run(["goto-instrument", "--drop-unused-functions", binary, out], 120)
    if rc != 0:
        return []
    rc, so, se, w, _ = run(["goto-instrument", "--list-goto-functions", out], 120)
    fns = []
    for line in so.splitlines():
        m = re.match(r"^(\S+) /\* (\S+?)(, body not available)? \*/", line)
        if m and not m.group(3) and not m.group(1).startswith("__CPROVER"):
            fns.append(m.group(1))
    try:
        os.unlink(out)
    except OSError:
        pass
    return sorted(fns)


def run_query(q, want_functions=False):
    res = Result(query=q)
    t0 = time.time()
    wd = scratch_dir()
    try:
        binp = os.path.join(wd, "h.goto")
        goto_cc(q, binp)
        if want_functions:
            res.functions = list_functions(binp, wd)
        rc, so, se, w, rss = run(cbmc_cmd(q, binp), q.timeout)
        res.rss_mb = rss
        if rc == "timeout":
            res.status = "TIMEOUT"
            return res
        results = parse_cbmc_json(so, res)
        if results is None:
            res.status = "OOM" if ("bad_alloc" in se or "Out of memory" in se or rc in (-6, -9, 134, 137)) else "ERROR"
            res.detail += "cbmc rc=%s stderr=%s stdout-tail=%s" % (rc, se[-500:], so[-500:])
            return res
        if any(r.get("status") == "FAILURE" and IGNORED_DESCRIPTIONS.match(r.get("description") or "")
               for r in results):
            # CBMC 6 reports everything downstream of a failed 'fatal' check as UNKNOWN.  Re-run
            # with the ignorable class de-selected so that all other properties get a verdict.
            res.notes = sorted({"%s: %s" % (r["property"], r.get("description")) for r in results
                                if r.get("status") == "FAILURE" and IGNORED_DESCRIPTIONS.match(r.get("description") or "")})
            rcp, sop, sep, wp, _ = run(cbmc_cmd(q, binp) + ["--show-properties"], 300)
            keep = []
            try:
                for o in json.loads(sop):
                    for p in (o.get("properties") or []) if isinstance(o, dict) else []:
                        if not IGNORED_DESCRIPTIONS.match(p.get("description") or ""):
                            keep.append(p["name"])
            except Exception as e:
                res.detail += "show-properties failed: %s" % e
                return res
            res.ignored_props = True
            keep_args = []
            for k in keep:
                keep_args += ["--property", k]
            res.keep_args = keep_args
            rc, so, se, w, rss = run(cbmc_cmd(q, binp) + keep_args, q.timeout)
            res.rss_mb = max(res.rss_mb, rss)
            if rc == "timeout":
                res.status = "TIMEOUT"
                return res
            res.solver_s = 0.0
            results = parse_cbmc_json(so, res)
            if results is None:
                res.status = "ERROR"
                res.detail += "cbmc(selected properties) rc=%s stderr=%s" % (rc, se[-500:])
                return res
        res.n_props = len(results)
        res.failing = [r for r in results if r.get("status") not in ("SUCCESS",)]
        res.n_success = res.n_props - len(res.failing)
        hard_fail = [r for r in results if r.get("status") == "FAILURE"]
        if res.n_props == 0:
            res.status = "ERROR"
            res.detail += "no properties generated"
            return res
        if not res.failing:
            res.status = "PASS"
        elif not hard_fail:
            res.status = "ERROR"
            res.detail += "non-SUCCESS statuses without FAILURE: %s" % res.failing[:3]
            return res
        else:
            res.status = "FAIL"
            # counterexample for the first failing property
            first = hard_fail[0]["property"]
            rc2, so2, se2, w2, rss2 = run(cbmc_cmd(q, binp, trace=True, props=[first]), q.timeout)
            r2 = Result(query=q)
            results2 = parse_cbmc_json(so2, r2) if rc2 != "timeout" else None
            vec = []
            if results2:
                for r in results2:
                    if r.get("status") == "FAILURE" and "trace" in r:
                        vec = trace_vector(r["trace"])
                        break
            res.vector = vec
            try:
                res.replay = native_replay(q, wd, vec, tag="cex")
            except Exception as e:  # build problems must not hide the solver verdict
                res.replay = {"rc": -998, "kind": "replay-build-error", "reproduced": False,
                              "witness": False, "stderr_tail": str(e)[-1500:]}
            res.failing = [{"property": r["property"], "description": r.get("description"),
                            "status": r.get("status"),
                            "location": "%s:%s" % ((r.get("sourceLocation") or {}).get("file"),
                                                   (r.get("sourceLocation") or {}).get("line"))}
                           for r in hard_fail[:10]]
        if q.witness and res.status == "PASS" and not q.expect_fail:
            wbin = os.path.join(wd, "w.goto")
            goto_cc(q, wbin, ["WITNESS"])
            rcw, sow, sew, ww, rssw = run(cbmc_cmd(q, wbin, witness=True), q.timeout)
            rw = Result(query=q)
            resw = parse_cbmc_json(sow, rw) if rcw != "timeout" else None
            res.witness = "error"
            if resw is not None:
                res.witness = "unreachable"
                for r in resw:
                    if r.get("description") == "WITNESS-REACHED":
                        if r.get("status") == "FAILURE":
                            res.witness = "reached"
                            res.witness_vector = trace_vector(r.get("trace", []))
                        break
            if res.witness == "reached" and q.replay_witness:
                rp = native_replay(q, wd, res.witness_vector, ["WITNESS"], tag="wit")
                res.witness_replayed = rp["witness"]
                if not rp["witness"]:
                    res.detail += "witness native replay: %s %s\n" % (rp["kind"], rp["stderr_tail"][-400:])
        return res
    except Exception as e:
        res.status = "ERROR"
        res.detail += "exception: %s" % e
        return res
    finally:
        res.wall_s = time.time() - t0
        shutil.rmtree(wd, ignore_errors=True)


def load_known_findings():
    p = os.path.join(VERIF, "known_findings.json")
    if not os.path.exists(p):
        return []
    return json.load(open(p)).get("findings", [])


def expand_known(queries, prop):
    """For every open known finding attached to a harness: exclude its pattern from
    the main queries (-DKF_EXCLUDE_<id>) and add a twin that must still fail."""
    kfs = [k for k in load_known_findings() if k.get("property") == prop and k.get("status") == "open"]
    if not kfs:
        return queries, []
    out = []
    twins = []
    for q in queries:
        rel = [k for k in kfs if k.get("harness") == q.harness]
        if rel:
            q.defines = list(q.defines) + ["KF_EXCLUDE_" + k["id"] for k in rel]
        out.append(q)
    for k in kfs:
        base = next((q for q in queries if q.harness == k.get("harness")), None)
        if base is None:
            continue
        import copy
        t = copy.deepcopy(base)
        t.name = base.name + "+KF_ONLY_" + k["id"]
        t.defines = [d for d in t.defines if not d.startswith("KF_EXCLUDE_" + k["id"])] + ["KF_ONLY_" + k["id"]]
        t.expect_fail = True
        t.kf = k["id"]
        t.witness = False
        twins.append((t, k))
    return out, twins


def run_check(prop, tier, queries, meta):
    """meta: dict(functions_note, bounds, assumptions, outside, rule, technique)"""
    t0 = time.time()
    os.makedirs(EVIDENCE, exist_ok=True)
    seed = int(os.environ.get("VERIF_SEED", "0") or 0)
    tv = None
    if any(q.seqz is not None for q in queries):
        ok, msg = seqz_validate()
        tv = {"ok": ok, "result": msg,
              "method": "harness/seqz_validate.c: the generated resumable C, run without preemption, against the real inline "
                        "functions on deterministic pseudo-random single-thread scenarios (results and final memory compared)"}
        if not ok:
            print("INCONCLUSIVE property=%s: translation validation of the sequentializer failed: %s" % (prop, msg))
            return 2
    queries, twins = expand_known(queries, prop)
    allq = list(queries) + [t for t, _ in twins]
    results = []
    first_fn = set()
    seen_h = set()
    with cf.ThreadPoolExecutor(max_workers=min(JOBS, max(1, len(allq)))) as ex:
        futs = []
        for q in allq:
            wf = q.harness not in seen_h
            seen_h.add(q.harness)
            futs.append(ex.submit(run_query, q, wf))
        for f in futs:
            results.append(f.result())
    violations = []
    stretch_undecided = []
    machinery = []
    known_lines = []
    for r in results:
        q = r.query
        if q.expect_fail:
            k = next(k for t, k in twins if t is q)
            if r.status == "FAIL":
                known_lines.append("KNOWN-FINDING: property=%s %s" % (prop, k["what"]))
            elif r.status == "PASS":
                print("NOTE: known finding %s no longer reproduces (%s)" % (k["id"], q.name))
            else:
                machinery.append((r, "known-finding twin undecided: %s" % r.status))
            continue
        if r.status == "FAIL" and r.failing and all(".unwind." in (f.get("property") or "") for f in r.failing) \
                and not (r.replay or {}).get("reproduced"):
            # only unwinding assertions failed and the native run of the counterexample terminates cleanly: the
            # loop bound of this query is too small for its inputs -- a defect of the check, not of the code
            machinery.append((r, "loop bound too small (only unwinding assertions failed, native run terminates): %s" %
                              ", ".join(sorted({f["location"].split("/")[-1] for f in r.failing}))[:300]))
        elif r.status == "FAIL":
            violations.append(r)
        elif q.stretch and (r.status in ("TIMEOUT", "OOM") or (r.status == "ERROR" and "too many addressed objects" in r.detail)):
            stretch_undecided.append(r)
        elif r.status != "PASS":
            machinery.append((r, "%s %s" % (r.status, r.detail[:800])))
        elif q.witness and r.witness != "reached":
            machinery.append((r, "vacuity guard: witness %s %s" % (r.witness, r.detail[:800])))
        elif q.witness and q.replay_witness and not r.witness_replayed:
            machinery.append((r, "witness did not replay natively: %s" % r.detail[:800]))
    fnset = sorted({f for r in results for f in r.functions})
    main = [r for r in results if not r.query.expect_fail]
    passed = [r for r in main if r.status == "PASS"]
    samples = []
    for r in main:
        if r.query.sample is not None and len(samples) < 6:
            s = {"query": r.query.name, "case": r.query.sample, "verdict": r.status,
                 "cbmc_properties": r.n_props, "vccs": r.vccs}
            if r.witness_vector:
                s["witness_inputs_hex"] = ["%x" % v for _, v in r.witness_vector[:24]]
                s["witness_replayed_natively"] = r.witness_replayed
            samples.append(s)
    if not samples:
        samples = [{"query": r.query.name, "verdict": r.status} for r in main[:3]]
    cov = {
        "evaluations": len(main),
        "distinct_nontrivial": len({r.query.name for r in main if r.status in ("PASS", "FAIL") and r.query.nontrivial and r.vccs > 0}),
        "rule": meta.get("rule", "one solver query per listed harness configuration; a query counts as non-trivial if the solver "
                                 "returned a verdict on at least one generated verification condition (witness twins, counted "
                                 "separately under witness_reached, show the end of each harness is reachable)"),
        "samples": samples,
        "obligations": sum(r.n_props for r in main),
        "discharged": sum(r.n_success for r in main),
        "vccs": sum(r.vccs for r in main),
        "vccs_after_simplification": sum(r.vccs_remaining for r in main),
        "sat_variables": sum(r.variables for r in main),
        "sat_clauses": sum(r.clauses for r in main),
        "symex_steps": sum(r.steps for r in main),
        "solver_s": round(sum(r.solver_s for r in main), 3),
        "max_rss_mb": max([r.rss_mb for r in main] or [0]),
        "queries_pass": len(passed),
        "queries_fail": len(violations),
        "queries_undecided": len([m for m in machinery]),
        "witness_reached": len([r for r in main if r.witness == "reached"]),
        "traces_validated_against_impl": len([r for r in main if r.witness_replayed]),
        "functions_encoded": fnset,
        "bounds": meta.get("bounds", {}),
        "outside_the_claim": meta.get("outside", []),
        "exhaustive": bool(meta.get("exhaustive", False)),
        "technique": meta.get("technique", "bounded symbolic execution of the real C sources (goto-cc from /repo) + SAT verdict (cbmc 6.11)"),
        "per_query": [{"name": r.query.name, "status": r.status, "props": r.n_props, "vccs": r.vccs,
                       "vars": r.variables, "solver_s": round(r.solver_s, 3), "wall_s": round(r.wall_s, 2),
                       "rss_mb": r.rss_mb, "witness": r.witness} for r in main][:400],
        "translation_validation": tv,
        "known_findings_reported": known_lines,
        "stretch_queries_undecided_outside_the_claim": [r.query.name for r in stretch_undecided],
        "notes_out_of_bounds_pointer_formed_for_comparison": sorted({n for r in main for n in r.notes})[:40],
    }
    ev = {
        "property_id": prop, "tier": tier, "seed": seed, "level": "model_checking",
        "coverage": cov,
        "assumptions": meta.get("assumptions", []) + [
            "allocation failure out of scope (--no-malloc-may-fail)",
            "bounded: loops unwound to the stated bounds with --unwinding-assertions; nothing is claimed beyond them",
        ],
        "wall_s": round(time.time() - t0, 2),
        "violations": len(violations),
    }
    with open(os.path.join(EVIDENCE, prop + ".json"), "w") as f:
        json.dump(ev, f, indent=1)
    for line in known_lines:
        print(line)
    rc = 0
    if violations:
        os.makedirs(REPLAYS, exist_ok=True)
        for r in violations:
            h = hashlib.sha1((r.query.name + json.dumps(r.vector)).encode()).hexdigest()[:10]
            path = os.path.join(REPLAYS, "%s-%s-%s.json" % (prop, re.sub(r"[^A-Za-z0-9_.+-]", "_", r.query.name)[:60], h))
            rep = {"property": prop, "query": r.query.name, "harness": r.query.harness,
                   "defines": r.query.defines, "sources": r.query.sources, "leak": r.query.leak,
                   "replay_shims": r.query.replay_shims or [],
                   "failing_solver_properties": r.failing, "vector": r.vector,
                   "native_replay": r.replay,
                   "confirmed": "native" if (r.replay or {}).get("reproduced") else "solver-only"}
            with open(path, "w") as f:
                json.dump(rep, f, indent=1)
            print("VIOLATION property=%s replay=%s" % (prop, path))
            print("  query=%s confirmed=%s first=%s" % (r.query.name, rep["confirmed"],
                  (r.failing[0]["description"] + " @ " + r.failing[0]["location"]) if r.failing else "?"))
        rc = 1
    if machinery:
        for r, why in machinery:
            print("INCONCLUSIVE property=%s query=%s: %s" % (prop, r.query.name, why))
        if rc == 0:
            rc = 2
    print("%s tier=%s queries=%d pass=%d fail=%d undecided=%d wall=%.1fs solver=%.1fs" % (
        prop, tier, len(main), len(passed), len(violations), len(machinery), time.time() - t0, cov["solver_s"]))
    return rc


def replay_file(path):
    rep = json.load(open(path))
    q = Query(name=rep["query"], harness=rep["harness"], defines=rep["defines"],
              sources=rep.get("sources", []), leak=rep.get("leak", False),
              replay_shims=rep.get("replay_shims") or None)
    wd = scratch_dir()
    try:
        r = native_replay(q, wd, [tuple(x) for x in rep["vector"]], tag="cex")
        print(json.dumps(r, indent=1))
        return 1 if r["reproduced"] else 0
    finally:
        shutil.rmtree(wd, ignore_errors=True)
