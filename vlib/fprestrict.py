"""Type-exact restriction of function-pointer call sites.

CBMC's function-pointer removal keeps every function whose signature is *compatible* with the
pointer, and it treats all pointer parameters as compatible: `refcount->cb(refcount)` may call
any `void f(struct X *)` in the program (pipe destructors, manager destructors, request
destructors...).  Once symbolic states have been merged, symex explores all of them,
recursively.  This module computes, for every indirect call site of a goto binary, the
functions whose C signature is *exactly* the type of the pointer (struct member type or
typedef, resolved from the symbol table and from the preprocessed source), and hands them to
`goto-instrument --restrict-function-pointer`.  The instrumenter adds
`ASSERT false // dereferenced function pointer must be one of ...` for any other value, so a
wrong or incomplete candidate set shows up as a failed assertion (fail closed), never as a
silently missed behaviour."""
import re
import subprocess

_TOK = r"[A-Za-z_$][\w$:]*"


def _norm_type(t):
    t = re.sub(r"\b(const|volatile|restrict|__restrict|register)\b", " ", t)
    t = re.sub(r"\s+", " ", t).strip()
    t = re.sub(r"\s*\*\s*", "*", t)
    t = re.sub(r"(?<!signed )(?<!unsigned )\bint\b", "signed int", t)
    t = re.sub(r"\bunsigned\b(?! (int|char|long|short|__))", "unsigned int", t)
    t = t.replace("_Bool", "bool")
    return t


def _split_params(s):
    out, depth, cur = [], 0, ""
    for ch in s:
        if ch == "," and depth == 0:
            out.append(cur)
            cur = ""
            continue
        if ch in "([":
            depth += 1
        elif ch in ")]":
            depth -= 1
        cur += ch
    if cur.strip():
        out.append(cur)
    return [p.strip() for p in out]


def _strip_param_name(p):
    p = p.strip()
    m = re.match(r"^(.*)\(\s*\*\s*" + _TOK + r"\s*\)\s*\((.*)\)$", p)      # function-pointer parameter
    if m:
        return _norm_type(m.group(1)) + "(*)(" + ",".join(_strip_param_name(x) for x in _split_params(m.group(2))) + ")"
    m = re.match(r"^(.*?)(" + _TOK + r")\s*(\[[^\]]*\])?$", p)
    if m and m.group(1).strip() and not re.match(r"^(struct|union|enum|unsigned|signed|long|short)$", m.group(1).strip().split()[-1]):
        base = m.group(1)
        if m.group(3):
            base += "*"
        return _norm_type(base)
    return _norm_type(p)


def _sig(ret, params):
    ps = [_strip_param_name(p) for p in _split_params(params)]
    if ps == ["void"]:
        ps = []
    return _norm_type(ret) + "(" + ",".join(ps) + ")"


def compute(binary, preprocessed_source):
    """returns list of 'label/target1,target2' strings"""
    st = subprocess.run(["goto-instrument", "--show-symbol-table", binary], capture_output=True, text=True).stdout
    syms = {}
    cur = None
    for line in st.splitlines():
        if line.startswith("Symbol......: "):
            cur = line[14:]
            syms[cur] = {}
        elif cur and line.startswith("Type........: "):
            syms[cur]["type"] = line[14:]
        elif cur and line.startswith("Value.......: "):
            syms[cur]["value"] = line[14:]
    # functions with a body, by exact signature
    by_sig = {}
    for name, s in syms.items():
        t = s.get("type", "")
        if "::" in name:
            continue        # (functions without a body, e.g. free(), count too: they are filtered by address-taken below)
        m = re.match(r"^(.*?)\s*\((.*)\)$", t)
        if not m or "(*" in m.group(1):
            continue
        by_sig.setdefault(_sig(m.group(1), m.group(2)), []).append(name)
    # typedefs of function-pointer type from the preprocessed source
    tdef = {}
    for m in re.finditer(r"typedef\s+([^;{}()]+?)\(\s*\*\s*(" + _TOK + r")\s*\)\s*\(([^;{}]*?)\)\s*;", preprocessed_source):
        tdef[m.group(2)] = _sig(m.group(1), m.group(3))
    # struct members
    structs = {}
    for name, s in syms.items():
        if not name.startswith("tag-"):
            continue
        t = s.get("type", "")
        m = re.match(r"^(struct|union) \S+ \{(.*)\}$", t)
        if not m:
            continue
        members = {}
        for decl in m.group(2).split(";"):
            decl = decl.strip()
            if not decl:
                continue
            fm = re.match(r"^(.*)\(\s*\*\s*(" + _TOK + r")\s*\)\s*\((.*)\)$", decl)
            if fm:
                members[fm.group(2)] = ("fn", _sig(fm.group(1), fm.group(3)))
                continue
            vm = re.match(r"^(.*?)(" + _TOK + r")\s*(\[[^\]]*\])?$", decl)
            if vm:
                members[vm.group(2)] = ("ty", _norm_type(vm.group(1)))
        structs[name[4:]] = members
    gf = subprocess.run(["goto-instrument", "--show-goto-functions", binary], capture_output=True, text=True).stdout
    # only functions whose address is taken somewhere can be the value of a function pointer
    addr_taken = set(re.findall(r"address_of\((" + _TOK + r")\)", gf))
    out = []
    fn = None
    count = {}
    for line in gf.splitlines():
        hm = re.match(r"^(" + _TOK + r") /\* ", line)
        if hm:
            fn = hm.group(1)
            continue
        cm = re.match(r"^\s*(?:\d+:\s*)?CALL (?:.*? := )?(\*.*)$", line)
        if not cm or fn is None:
            continue
        expr = cm.group(1)
        # the callee expression ends where the argument list starts: find matching split
        depth, end = 0, None
        for i, ch in enumerate(expr):
            if ch == "(":
                if depth == 0 and i > 0 and expr[i - 1] != "*" and not re.match(r"^\**$", expr[:i]):
                    end = i
                    break
                depth += 1
            elif ch == ")":
                depth -= 1
        callee = expr[:end] if end else expr
        count[fn] = count.get(fn, 0) + 1
        label = "%s.function_pointer_call.%d" % (fn, count[fn])
        base = re.search(_TOK, callee)
        if not base:
            continue
        bsym = base.group(0)
        members = re.findall(r"\.(" + _TOK + ")", callee[base.end():])
        ty = _norm_type(syms.get(bsym, {}).get("type", ""))
        sig = None
        for mname in members:
            sm = re.match(r"^(?:struct|union) (\S+?)\**$", ty)
            if not sm or sm.group(1) not in structs or mname not in structs[sm.group(1)]:
                ty = None
                break
            kind, val = structs[sm.group(1)][mname]
            if kind == "fn":
                sig = val
                ty = None
            else:
                ty = val
        if sig is None and ty:
            t = ty.rstrip("*")
            if t in tdef:
                sig = tdef[t]
            else:
                fm = re.match(r"^(.*)\(\*\)\((.*)\)$", ty)
                if fm:
                    sig = _sig(fm.group(1), fm.group(2))
        if sig:
            cands = set(by_sig.get(sig, []))
            # a function taking `void *` may legitimately be stored in a pointer whose parameter is `struct X *`
            # (urequest_free_func is initialised with (urequest_free_func)free)
            canon = re.sub(r"(struct|union) \w+\*", "void*", sig)
            for osig, fl in by_sig.items():
                if "void*" in osig and osig != sig and re.sub(r"(struct|union) \w+\*", "void*", osig) == canon:
                    cands |= set(fl)
            targets = sorted(t for t in cands if t != fn and t in addr_taken)     # an inline wrapper never reaches itself through its own pointer
            if targets:
                out.append((label, targets, sig))
    return out


def apply(binary, out_binary, preprocessed_source):
    res = compute(binary, preprocessed_source)
    if not res:
        return binary, []
    cmd = ["goto-instrument"]
    for label, targets, _ in res:
        cmd += ["--restrict-function-pointer", label + "/" + ",".join(targets)]
    cmd += [binary, out_binary]
    p = subprocess.run(cmd, capture_output=True, text=True)
    if p.returncode != 0:
        raise RuntimeError("goto-instrument --restrict-function-pointer failed: " + (p.stderr or p.stdout)[-800:])
    return out_binary, res
