"""LLVM-IR -> resumable C ("sequentializer") for the schedule-quantified properties C07/C08/C09.

Input : the text of an LLVM 14 module produced by clang -O1 from the REAL headers (uatomic.h, uring.h,
        ulifo.h, ufifo.h, upool.h, uqueue.h, ueventfd.h, udeal.h, urefcount.h, ubuf_mem_common.h) through
        noinline wrapper functions.
Output: C source with, for every wrapper `f`, `struct F_f` (arguments, SSA values, pc) and
        `bool S_f(struct F_f *)` which runs the function from the saved pc THROUGH exactly one *visible*
        instruction and the local computation that follows it, and returns true when the function returned.
        Visible = any load / store / cmpxchg / atomicrmw on memory not derived from the function's own
        allocas, and any call (callbacks, eventfd_*).  No hook in /repo is needed: every shared access of the
        compiled code is a scheduling point, which is finer than the yield points C07-C09 ask for.
The translator checks what it relies on and raises SeqzError otherwise (fail closed): only the instruction
forms it implements, atomic orderings are seq_cst, no inline asm, no vector types."""
import re


class SeqzError(Exception):
    pass


# ---------------------------------------------------------------- types
class T:
    def __init__(self, kind, **kw):
        self.kind = kind
        self.__dict__.update(kw)


def parse_type(s, i, structs):
    """returns (T, next_index) ; s[i:] starts with a type"""
    s2 = s[i:]
    m = re.match(r"\s*", s2)
    i += m.end()
    if s.startswith("void", i):
        t, i = T("void"), i + 4
    elif re.match(r"i\d+", s[i:]):
        m = re.match(r"i(\d+)", s[i:])
        t, i = T("int", bits=int(m.group(1))), i + m.end()
    elif s.startswith("%struct.", i) or s.startswith("%union.", i):
        m = re.match(r"%[\w.]+", s[i:])
        t, i = T("named", name=m.group(0)), i + m.end()
    elif s[i] == "[":
        m = re.match(r"\[(\d+) x ", s[i:])
        n = int(m.group(1))
        et, j = parse_type(s, i + m.end(), structs)
        assert s[j] == "]", s[j:j + 20]
        t, i = T("array", n=n, elem=et), j + 1
    elif s[i] == "{":
        j = i + 1
        elems = []
        while True:
            while s[j] == " ":
                j += 1
            if s[j] == "}":
                break
            et, j = parse_type(s, j, structs)
            elems.append(et)
            while s[j] == " ":
                j += 1
            if s[j] == ",":
                j += 1
        t, i = T("struct", elems=elems), j + 1
    elif s.startswith("double", i) or s.startswith("float", i):
        raise SeqzError("floating point type")
    elif s[i] == "<":
        raise SeqzError("vector type")
    else:
        raise SeqzError("unknown type at: " + s[i:i + 40])
    # suffixes: pointers and function types
    while True:
        m = re.match(r"\s*\*", s[i:])
        if m:
            t = T("ptr", to=t)
            i += m.end()
            continue
        m = re.match(r"\s*\(", s[i:])
        if m and t.kind != "fn_args":
            # function type: ret (args)
            j = i + m.end()
            depth = 1
            while depth:
                if s[j] == "(":
                    depth += 1
                elif s[j] == ")":
                    depth -= 1
                j += 1
            t = T("fn", ret=t, args=s[i + m.end():j - 1])
            i = j
            continue
        break
    return t, i


def size_align(t, structs):
    if t.kind == "int":
        b = max(1, (t.bits + 7) // 8)
        b = 1 if b == 1 else 2 if b == 2 else 4 if b <= 4 else 8
        return b, b
    if t.kind in ("ptr", "fn"):
        return 8, 8
    if t.kind == "array":
        s, a = size_align(t.elem, structs)
        return s * t.n, a
    if t.kind == "named":
        return size_align(structs[t.name], structs)
    if t.kind == "struct":
        off, al = 0, 1
        for e in t.elems:
            s, a = size_align(e, structs)
            off = (off + a - 1) // a * a + s
            al = max(al, a)
        return ((off + al - 1) // al * al) if t.elems else 0, al
    raise SeqzError("size of " + t.kind)


def field_offset(t, idx, structs):
    if t.kind == "named":
        t = structs[t.name]
    off = 0
    for k, e in enumerate(t.elems):
        s, a = size_align(e, structs)
        off = (off + a - 1) // a * a
        if k == idx:
            return off, e
        off += s
    raise SeqzError("field index")


def ctype(t):
    if t.kind == "int":
        if t.bits == 1:
            return "uint8_t"
        return "uint%d_t" % (8 if t.bits <= 8 else 16 if t.bits <= 16 else 32 if t.bits <= 32 else 64)
    if t.kind in ("ptr", "fn"):
        return "char *"
    raise SeqzError("ctype of " + t.kind)


def bits(t):
    return t.bits if t.kind == "int" else 64


# ---------------------------------------------------------------- module
class Fn:
    pass


def parse_module(text):
    structs = {}
    for m in re.finditer(r"^(%[\w.]+) = type (.+)$", text, re.M):
        if m.group(2).strip() == "opaque":
            continue
        structs[m.group(1)] = None
    for m in re.finditer(r"^(%[\w.]+) = type (.+)$", text, re.M):
        if m.group(2).strip() == "opaque":
            continue
        t, _ = parse_type(m.group(2), 0, structs)
        structs[m.group(1)] = t
    fns = []
    for m in re.finditer(r"^define [^@]*?(@[\w.]+)\((.*?)\)[^{]*\{\n(.*?)^\}", text, re.M | re.S):
        f = Fn()
        f.name = m.group(1)[1:]
        head = text[m.start():text.index("{", m.start())]
        rm = re.match(r"define (?:dso_local |internal |noundef |zeroext |signext |nonnull )*(.+?) @", head)
        f.ret, _ = parse_type(rm.group(1).replace("zeroext ", "").replace("signext ", "").replace("noundef ", ""), 0, structs)
        f.args = []
        argstr = m.group(2)
        depth, cur, parts = 0, "", []
        for ch in argstr:
            if ch == "," and depth == 0:
                parts.append(cur)
                cur = ""
                continue
            if ch in "([{":
                depth += 1
            elif ch in ")]}":
                depth -= 1
            cur += ch
        if cur.strip():
            parts.append(cur)
        for p in parts:
            p = p.strip()
            am = re.search(r"(%[\w.]+)$", p)
            t, _ = parse_type(p, 0, structs)
            f.args.append((am.group(1), t))
        f.body = m.group(3)
        fns.append(f)
    return structs, fns


ATTR = r"(?:noundef|nonnull|zeroext|signext|nocapture|readonly|readnone|writeonly|align \d+|dereferenceable\(\d+\)|inbounds|nuw|nsw|exact|volatile|weak|tail|notail|musttail|local_unnamed_addr|dso_local)\s+"


def strip_attrs(s):
    if re.search(r"\b(load|store) atomic\b", s):
        if " seq_cst" not in s:
            raise SeqzError("atomic load/store weaker than seq_cst: " + s)
        s = re.sub(r"\b(load|store) atomic\b", r"\1", s).replace(" seq_cst", "")
    prev = None
    while prev != s:
        prev = s
        s = re.sub(r"\b" + ATTR, "", s)
    return s


LAYOUTS = {}          # C record name -> {offset: field name} (from clang -fdump-record-layouts)
IMMUTABLE = set()     # e.g. {"%struct.uring"}: fields written only before the threads start


class Gen:
    def __init__(self, structs, fn):
        self.immutable_ptrs = set()
        self.structs = structs
        self.fn = fn
        self.types = {}          # ssa -> T
        self.local_ptrs = set()  # ssa values derived from allocas
        self.allocas = {}        # ssa -> (size)
        self.lines = []
        self.pairs = set()       # ssa of {iN, i1} values
        for a, t in fn.args:
            self.types[a] = t

    # --- operands
    def val(self, tok, t=None):
        tok = tok.strip()
        if tok.startswith("%"):
            return "f->" + self.cname(tok)
        if tok in ("null", "undef", "poison", "zeroinitializer"):
            return "0"
        if tok == "true":
            return "1"
        if tok == "false":
            return "0"
        if re.match(r"^-?\d+$", tok):
            v = int(tok)
            if t is not None and t.kind == "int" and v < 0:
                v &= (1 << max(8, t.bits if t.bits > 1 else 8)) - 1 if t.bits <= 32 or t.bits == 64 else (1 << 64) - 1
                if t.bits == 64:
                    v &= (1 << 64) - 1
            return "%dULL" % v if v >= 0 else "(%dLL)" % v
        if tok.startswith("@"):
            return "(char *)&" + tok[1:]
        if tok.startswith("getelementptr") or tok.startswith("bitcast"):
            return "0 /* constant expression (only used by assertion messages) */"
        raise SeqzError("operand " + tok)

    def cname(self, ssa):
        return "v_" + re.sub(r"[^\w]", "_", ssa[1:])

    def mask(self, expr, t):
        if t.kind != "int":
            return expr
        if t.bits in (8, 16, 32, 64):
            return "(%s)(%s)" % (ctype(t), expr)
        return "((%s)(%s) & %dULL)" % (ctype(t), expr, (1 << t.bits) - 1)

    def signed(self, expr, t):
        b = bits(t)
        if b in (8, 16, 32, 64):
            return "((int%d_t)(%s))" % (b, expr)
        # sign-extend odd widths
        return "((int64_t)((uint64_t)(%s) << %d) >> %d)" % (expr, 64 - b, 64 - b)

    def is_local(self, ptr_tok):
        return ptr_tok.strip() in self.local_ptrs

    # --- translation
    def run(self):
        fn = self.fn
        blocks = []
        cur = None
        pending = None
        for raw in fn.body.split("\n"):
            line = raw.split(";")[0].rstrip() if not raw.strip().startswith(";") else ""
            if not line.strip():
                continue
            lm = re.match(r"^([\w.]+):", line)
            if lm:
                cur = ["%" + lm.group(1), []]
                blocks.append(cur)
                continue
            if cur is None:
                # entry block label is the implicit next number: find it lazily
                cur = [None, []]
                blocks.append(cur)
            ls = strip_attrs(re.sub(r", ![\w.]+ !\d+", "", line.strip()))
            if pending is not None:             # multi-line switch
                pending += " " + ls
                if ls.endswith("]"):
                    cur[1].append(pending)
                    pending = None
                continue
            if ls.startswith("switch ") and not ls.endswith("]"):
                pending = ls
                continue
            cur[1].append(ls)
        # implicit entry label = number of args (unnamed numbering)
        if blocks[0][0] is None:
            blocks[0][0] = "%" + str(len(fn.args))
        self.blocks = blocks
        # first pass: collect SSA types
        for lbl, ins in blocks:
            for s in ins:
                m = re.match(r"^(%[\w.]+) = (.*)$", s)
                if m:
                    self.types[m.group(1)] = self.result_type(m.group(2), m.group(1))
        # segments
        seg = 0
        self.blockseg = {}
        out = []
        body = []
        for bi, (lbl, ins) in enumerate(blocks):
            self.blockseg[lbl] = seg
            body.append(("label", seg, lbl))
            seg += 1
            phis = [s for s in ins if re.match(r"^%[\w.]+ = phi ", s)]
            if phis:
                body.append(("phis", phis, lbl))
            for s in ins:
                if re.match(r"^%[\w.]+ = phi ", s):
                    continue
                vis = self.visible(s)
                if vis:
                    body.append(("vis", seg))
                    seg += 1
                body.append(("ins", s, lbl))
        self.nseg = seg
        return body

    def result_type(self, rhs, ssa):
        st = self.structs
        op = rhs.split()[0]
        if op in ("add", "sub", "mul", "and", "or", "xor", "shl", "lshr", "ashr", "udiv", "urem", "sdiv", "srem"):
            t, _ = parse_type(rhs[len(op):], 0, st)
            return t
        if op == "icmp":
            return T("int", bits=1)
        if op in ("load",):
            t, _ = parse_type(rhs[len("load"):], 0, st)
            return t
        if op in ("zext", "sext", "trunc", "bitcast", "ptrtoint", "inttoptr"):
            m = re.search(r" to (.+)$", rhs)
            t, _ = parse_type(m.group(1), 0, st)
            return t
        if op == "getelementptr":
            return T("ptr", to=T("int", bits=8))
        if op == "phi" or op == "select":
            r = rhs[len(op):]
            if op == "select":
                r = r[r.index(",") + 1:]
            t, _ = parse_type(r, 0, st)
            return t
        if op == "cmpxchg":
            self.pairs.add(ssa)
            m = re.match(r"cmpxchg (.+?)\* ", rhs)
            t, _ = parse_type(m.group(1), 0, st)
            return T("pair", elem=t)
        if op == "atomicrmw":
            m = re.match(r"atomicrmw \w+ (.+?)\* ", rhs)
            t, _ = parse_type(m.group(1), 0, st)
            return t
        if op == "extractvalue":
            m = re.match(r"extractvalue \{ (.+?), i1 \} (%[\w.]+), (\d)", rhs)
            if not m:
                raise SeqzError("extractvalue form: " + rhs)
            if m.group(3) == "1":
                return T("int", bits=1)
            t, _ = parse_type(m.group(1), 0, st)
            return t
        if op == "call":
            t, _ = parse_type(rhs[len("call"):], 0, st)
            return t
        if op == "alloca":
            return T("ptr", to=T("int", bits=8))
        raise SeqzError("unsupported instruction: " + rhs)

    def visible(self, s):
        m = re.match(r"^(?:%[\w.]+ = )?(\w+)", s)
        op = m.group(1)
        if op in ("cmpxchg", "atomicrmw"):
            return True
        if op == "load":
            pm = re.search(r"\* (%[\w.]+|@[\w.]+)", s)
            return not (pm and (pm.group(1) in self.local_ptrs or pm.group(1) in self.immutable_ptrs))
        if op == "store":
            pm = re.search(r"\* (%[\w.]+|@[\w.]+)(?:, align \d+)?$", s)
            return not (pm and pm.group(1) in self.local_ptrs)
        if op == "call":
            return "__assert_fail" not in s and "llvm.lifetime" not in s and "llvm.dbg" not in s
        return False

    def emit(self):
        fn = self.fn
        # pre-scan allocas to know local pointers before visibility is decided
        for raw in fn.body.split("\n"):
            s = strip_attrs(raw.strip())
            m = re.match(r"^(%[\w.]+) = alloca (.+?)(?:, align \d+)?$", s)
            if m:
                t, _ = parse_type(m.group(2), 0, self.structs)
                self.allocas[m.group(1)] = size_align(t, self.structs)[0]
                self.local_ptrs.add(m.group(1))
        changed = True
        while changed:      # pointers derived from allocas
            changed = False
            for raw in fn.body.split("\n"):
                s = strip_attrs(raw.strip())
                m = re.match(r"^(%[\w.]+) = (?:getelementptr|bitcast) .*?(%[\w.]+)", s)
                if m and m.group(1) not in self.local_ptrs:
                    srcs = re.findall(r"%[\w.]+", s.split("=", 1)[1])
                    if srcs and srcs[0] in self.local_ptrs or any(x in self.local_ptrs for x in srcs[:2]):
                        if any(x in self.local_ptrs for x in srcs):
                            self.local_ptrs.add(m.group(1))
                            changed = True
        for raw in fn.body.split("\n"):
            s2 = strip_attrs(raw.strip())
            m = re.match(r"^(%[\w.]+) = getelementptr (%[\w.]+), \S+ %[\w.]+, i64 0((?:, i32 \d+)*)$", s2)
            if m:
                path = ".".join(re.findall(r"i32 (\d+)", m.group(3)))
                for spec in IMMUTABLE:      # "type:path-prefix" (path = constant field indices after the leading 0)
                    ty, _, pre = spec.partition(":")
                    if ty == m.group(2) and (path == pre or path.startswith(pre + ".") or pre == ""):
                        self.immutable_ptrs.add(m.group(1))
        body = self.run()
        L = []
        name = fn.name
        L.append("struct F_%s {" % name)
        L.append("    int pc, prev, budget;")
        if fn.ret.kind != "void":
            L.append("    %s ret;" % ctype(fn.ret))
        for ssa, t in self.types.items():
            if t.kind == "pair":
                L.append("    %s %s_0; uint8_t %s_1;" % (ctype(t.elem), self.cname(ssa), self.cname(ssa)))
            elif t.kind == "void":
                continue
            else:
                L.append("    %s %s;" % (ctype(t), self.cname(ssa)))
        for ssa, sz in self.allocas.items():
            L.append("    uint64_t a_%s[%d];" % (self.cname(ssa), (sz + 7) // 8))
        L.append("};")
        L.append("static bool S_%s(struct F_%s *f)" % (name, name))
        L.append("{")
        # one multiplexer at entry, then ordinary labels and gotos: forward branches cost nothing, back edges (CAS
        # retry loops) are ordinary loops for CBMC.  The function runs until f->budget visible instructions are done.
        L.append("    switch (f->pc) {")
        for item in body:
            if item[0] == "vis":
                L.append("        case %d: goto L_%d;" % (item[1], item[1]))
        L.append("        case 0: goto L_0;")
        L.append("        default: VERIF_SEQZ_BAD_PC(); return true;")
        L.append("    }")
        for item in body:
            if item[0] == "label":
                L.append("    L_%d: ; /* block %s */" % (item[1], item[2]))
            elif item[0] == "phis":
                tmp = []
                for k, s in enumerate(item[1]):
                    m = re.match(r"^(%[\w.]+) = phi (.+)$", s)
                    t, j = parse_type(m.group(2), 0, self.structs)
                    pairs = re.findall(r"\[\s*([^,\]]+),\s*(%[\w.]+)\s*\]", m.group(2)[j:])
                    expr = "0"
                    for v, b in reversed(pairs):
                        expr = "(f->prev == %d ? %s : %s)" % (self.blockseg_id(b), self.mask(self.val(v, t), t), expr)
                    L.append("        { %s t%d = %s;" % (ctype(t), k, expr))
                    tmp.append((m.group(1), k))
                for ssa, k in tmp:
                    L.append("        f->%s = t%d;" % (self.cname(ssa), k))
                L.append("        " + "}" * len(tmp))
            elif item[0] == "vis":
                L.append("    L_%d: ;" % item[1])
                L.append("        if (f->budget <= 0) { f->pc = %d; return false; }" % item[1])
                L.append("        f->budget--;")
            else:
                for l in self.ins(item[1], item[2]):
                    L.append("        " + l)
        L.append("}")
        return "\n".join(L)

    def blockseg_id(self, lbl):
        return self.blockseg[lbl]

    def ins(self, s, lbl):
        st = self.structs
        here = self.blockseg[lbl]
        m = re.match(r"^(%[\w.]+) = (.*)$", s)
        if m:
            ssa, rhs = m.group(1), m.group(2)
            dst = "f->" + self.cname(ssa)
            op = rhs.split()[0]
            t = self.types[ssa]
            if op in ("add", "sub", "mul", "and", "or", "xor", "shl", "lshr", "ashr", "udiv", "urem"):
                tt, j = parse_type(rhs[len(op):], 0, st)
                a, b = [x.strip() for x in rhs[len(op):][j:].split(",")]
                cop = {"add": "+", "sub": "-", "mul": "*", "and": "&", "or": "|", "xor": "^", "shl": "<<", "lshr": ">>", "udiv": "/", "urem": "%"}.get(op)
                if op == "ashr":
                    return ["%s = %s;" % (dst, self.mask("%s >> %s" % (self.signed(self.val(a, tt), tt), self.val(b, tt)), tt))]
                return ["%s = %s;" % (dst, self.mask("(uint64_t)%s %s (uint64_t)%s" % (self.val(a, tt), cop, self.val(b, tt)), tt))]
            if op == "icmp":
                mm = re.match(r"icmp (\w+) (.+)$", rhs)
                pred = mm.group(1)
                tt, j = parse_type(mm.group(2), 0, st)
                a, b = [x.strip() for x in mm.group(2)[j:].split(",")]
                va, vb = self.val(a, tt), self.val(b, tt)
                if pred in ("slt", "sle", "sgt", "sge"):
                    va, vb = self.signed(va, tt), self.signed(vb, tt)
                elif tt.kind == "int":
                    va, vb = self.mask(va, tt), self.mask(vb, tt)
                cop = {"eq": "==", "ne": "!=", "ult": "<", "ule": "<=", "ugt": ">", "uge": ">=", "slt": "<", "sle": "<=", "sgt": ">", "sge": ">="}[pred]
                return ["%s = (%s %s %s);" % (dst, va, cop, vb)]
            if op in ("zext", "trunc", "bitcast", "ptrtoint", "inttoptr"):
                mm = re.match(r"\w+ (.+) to (.+)$", rhs)
                tt, j = parse_type(mm.group(1), 0, st)
                v = mm.group(1)[j:].strip()
                src = self.mask(self.val(v, tt), tt) if tt.kind == "int" else self.val(v, tt)
                if t.kind == "int":
                    return ["%s = %s;" % (dst, self.mask("(uint64_t)(uintptr_t)%s" % src, t))]
                return ["%s = (char *)(uintptr_t)%s;" % (dst, src)]
            if op == "sext":
                mm = re.match(r"sext (.+) to (.+)$", rhs)
                tt, j = parse_type(mm.group(1), 0, st)
                v = mm.group(1)[j:].strip()
                return ["%s = %s;" % (dst, self.mask("(uint64_t)(int64_t)%s" % self.signed(self.val(v, tt), tt), t))]
            if op == "select":
                mm = re.match(r"select i1 ([^,]+), (.+)$", rhs)
                c = mm.group(1)
                rest = mm.group(2)
                tt, j = parse_type(rest, 0, st)
                r2 = rest[j:]
                a = r2.split(",")[0].strip()
                r3 = r2[r2.index(",") + 1:]
                _, j2 = parse_type(r3, 0, st)
                b = r3[j2:].strip()
                return ["%s = %s ? %s : %s;" % (dst, self.val(c), self.val(a, tt), self.val(b, tt))]
            if op == "getelementptr":
                mm = re.match(r"getelementptr (.+)$", rhs)
                tt, j = parse_type(mm.group(1), 0, st)
                rest = mm.group(1)[j:].lstrip(",").strip()
                # "T* %p, i64 I, i32 F ..."
                parts = [x.strip() for x in rest.split(",")]
                _, j2 = parse_type(parts[0], 0, st)
                base = parts[0][j2:].strip()
                typed = self.gep_typed(tt, base, parts[1:])
                if typed is not None:
                    return ["%s = %s;" % (dst, typed)]
                expr = "(char *)%s" % self.val(base)
                curt = tt
                for k, p in enumerate(parts[1:]):
                    it, j3 = parse_type(p, 0, st)
                    idx = p[j3:].strip()
                    if k == 0:
                        sz = size_align(curt, st)[0]
                        expr += " + (int64_t)%s * %d" % (self.signed(self.val(idx, it), it), sz)
                    else:
                        ct = st[curt.name] if curt.kind == "named" else curt
                        if ct.kind == "struct":
                            off, curt = field_offset(ct, int(idx), st)
                            expr += " + %d" % off
                        elif ct.kind == "array":
                            sz = size_align(ct.elem, st)[0]
                            expr += " + (int64_t)%s * %d" % (self.signed(self.val(idx, it), it), sz)
                            curt = ct.elem
                        else:
                            raise SeqzError("gep into " + ct.kind)
                return ["%s = %s;" % (dst, expr)]
            if op == "load":
                mm = re.match(r"load (.+)$", rhs)
                tt, j = parse_type(mm.group(1), 0, st)
                pm = re.search(r"\* (%[\w.]+|@[\w.]+)", mm.group(1)[j:])
                return ["%s = *(%s *)%s;" % (dst, ctype(tt), self.val(pm.group(1)))]
            if op == "cmpxchg":
                mm = re.match(r"cmpxchg (.+)$", rhs)
                if rhs.count("seq_cst") != 2:
                    raise SeqzError("cmpxchg ordering weaker than seq_cst: " + rhs)
                tt, j = parse_type(mm.group(1), 0, st)      # pointer type
                rest = [x.strip() for x in mm.group(1)[j:].split(",")]
                p = rest[0]
                et = tt.to
                _, j2 = parse_type(rest[1], 0, st)
                exp = rest[1][j2:].strip()
                r2 = rest[2].split(" seq_cst")[0]
                _, j3 = parse_type(r2, 0, st)
                new = r2[j3:].strip()
                c = self.cname(ssa)
                return ["{ %s *p = (%s *)%s; %s old = *p; f->%s_0 = old; f->%s_1 = (old == %s); if (f->%s_1) *p = %s; }" %
                        (ctype(et), ctype(et), self.val(p), ctype(et), c, c, self.mask(self.val(exp, et), et), c, self.mask(self.val(new, et), et))]
            if op == "atomicrmw":
                mm = re.match(r"atomicrmw (\w+) (.+)$", rhs)
                if "seq_cst" not in rhs:
                    raise SeqzError("atomicrmw ordering weaker than seq_cst: " + rhs)
                aop = mm.group(1)
                tt, j = parse_type(mm.group(2), 0, st)
                rest = [x.strip() for x in mm.group(2)[j:].split(",")]
                p = rest[0]
                r1 = rest[1].split(" seq_cst")[0]
                et, j2 = parse_type(r1, 0, st)
                v = r1[j2:].strip()
                cop = {"add": "old + %s", "sub": "old - %s", "xchg": "%s", "and": "old & %s", "or": "old | %s"}[aop]
                return ["{ %s *p = (%s *)%s; %s old = *p; *p = %s; %s = old; }" %
                        (ctype(et), ctype(et), self.val(p), ctype(et), self.mask(cop % self.val(v, et), et), dst)]
            if op == "extractvalue":
                mm = re.match(r"extractvalue \{ .+?, i1 \} (%[\w.]+), (\d)", rhs)
                return ["%s = f->%s_%s;" % (dst, self.cname(mm.group(1)), mm.group(2))]
            if op == "alloca":
                return ["%s = (char *)f->a_%s;" % (dst, self.cname(ssa))]
            if op == "call":
                return self.call(rhs, dst, t)
            raise SeqzError("unsupported: " + s)
        op = s.split()[0]
        if op == "br":
            mm = re.match(r"br label (%[\w.]+)$", s)
            if mm:
                return ["f->prev = %d; goto L_%d;" % (here, self.blockseg[mm.group(1)])]
            mm = re.match(r"br i1 ([^,]+), label (%[\w.]+), label (%[\w.]+)$", s)
            return ["f->prev = %d; if (%s) goto L_%d; else goto L_%d;" % (here, self.val(mm.group(1)), self.blockseg[mm.group(2)], self.blockseg[mm.group(3)])]
        if op == "switch":
            mm = re.match(r"switch (.+?) (%[\w.]+), label (%[\w.]+) \[(.*)\]$", s)
            tt, _ = parse_type(mm.group(1), 0, st)
            out = ["f->prev = %d;" % here, "switch (%s) {" % self.mask(self.val(mm.group(2)), tt)]
            for cm in re.finditer(r"i\d+ (-?\d+), label (%[\w.]+)", mm.group(4)):
                out.append("    case %s: goto L_%d;" % (self.val(cm.group(1), tt), self.blockseg[cm.group(2)]))
            out.append("    default: goto L_%d;" % self.blockseg[mm.group(3)])
            out.append("}")
            return out
        if op == "ret":
            if s.strip() == "ret void":
                return ["f->pc = -1; return true;"]
            mm = re.match(r"ret (.+)$", s)
            tt, j = parse_type(mm.group(1), 0, st)
            return ["f->ret = %s; f->pc = -1; return true;" % self.mask(self.val(mm.group(1)[j:].strip(), tt), tt) if tt.kind == "int" else
                    "f->ret = (char *)%s; f->pc = -1; return true;" % self.val(mm.group(1)[j:].strip(), tt)]
        if op == "store":
            mm = re.match(r"store (.+)$", s)
            tt, j = parse_type(mm.group(1), 0, st)
            rest = mm.group(1)[j:]
            v = rest.split(",")[0].strip()
            pm = re.search(r"\* (%[\w.]+|@[\w.]+)", rest)
            src = self.mask(self.val(v, tt), tt) if tt.kind == "int" else "(char *)" + self.val(v, tt)
            return ["*(%s *)%s = %s;" % (ctype(tt), self.val(pm.group(1)), src)]
        if op == "call":
            return self.call(s, None, T("void"))
        if op == "unreachable":
            return ["VERIF_SEQZ_UNREACHABLE(); return true;"]
        if op == "fence":
            return ["/* fence */"]
        raise SeqzError("unsupported: " + s)

    def gep_typed(self, tt, base, idxs):
        """typed address expression `(char *)&((struct X *)p)[i].field...` when the C layout of X is known: CBMC then
        sees an array/struct access instead of byte arithmetic (30x smaller formulas on the ring buffers)"""
        st = self.structs
        if tt.kind != "named" or not tt.name.startswith("%struct."):
            return None
        cname = tt.name[len("%struct."):]
        if cname not in LAYOUTS:
            return None
        it, j = parse_type(idxs[0], 0, st)
        expr = "((struct %s *)%s)[(int64_t)%s]" % (cname, self.val(base), self.signed(self.val(idxs[0][j:].strip(), it), it))
        curt, curname = st[tt.name], cname
        for p in idxs[1:]:
            it, j = parse_type(p, 0, st)
            idx = p[j:].strip()
            if curt.kind == "struct":
                if curname is None or curname not in LAYOUTS or not re.match(r"^\d+$", idx):
                    return None
                off, ft = field_offset(curt, int(idx), st)
                fname = LAYOUTS[curname].get(off)
                if fname is None:
                    return None
                expr += "." + fname
                if ft.kind == "named" and ft.name.startswith("%struct."):
                    curname, curt = ft.name[len("%struct."):], st[ft.name]
                else:
                    curname, curt = None, ft
            elif curt.kind == "array":
                expr += "[(int64_t)%s]" % self.signed(self.val(idx, it), it)
                et = curt.elem
                if et.kind == "named" and et.name.startswith("%struct."):
                    curname, curt = et.name[len("%struct."):], st[et.name]
                else:
                    curname, curt = None, et
            else:
                return None
        return "(char *)&" + expr

    def call(self, rhs, dst, t):
        st = self.structs
        if "__assert_fail" in rhs:
            return ["VERIF_SEQZ_ASSERT_FAIL();"]
        if "llvm.lifetime" in rhs or "llvm.dbg" in rhs:
            return []
        if "asm " in rhs:
            raise SeqzError("inline asm")
        mm = re.match(r"call (.+)$", rhs)
        rt, j = parse_type(mm.group(1), 0, st)
        rest = mm.group(1)[j:].strip()
        cm = re.match(r"(%[\w.]+|@[\w.]+)\((.*)\)(?: #\d+)?$", rest)
        if not cm:
            raise SeqzError("call form: " + rhs)
        callee = cm.group(1)
        args = []
        depth, cur, parts = 0, "", []
        for ch in cm.group(2):
            if ch == "," and depth == 0:
                parts.append(cur)
                cur = ""
                continue
            if ch in "([{":
                depth += 1
            elif ch in ")]}":
                depth -= 1
            cur += ch
        if cur.strip():
            parts.append(cur)
        ctypes = []
        for p in parts:
            at, j2 = parse_type(p.strip(), 0, st)
            args.append(self.mask(self.val(p.strip()[j2:].strip(), at), at) if at.kind == "int" else self.val(p.strip()[j2:].strip(), at))
            ctypes.append(ctype(at))
        rct = "void" if rt.kind == "void" else ctype(rt)
        if callee.startswith("@"):
            call = "%s(%s)" % (callee[1:], ", ".join(args))
        else:
            # indirect call (a callback): the harness resolves the pointer against the callbacks it installed and
            # asserts it is one of them (CBMC cannot keep a function pointer that travelled through a char * precise)
            call = "VERIF_SEQZ_ICALL%s%d(%s)" % ("V" if rt.kind != "void" else "", len(args), ", ".join([self.val(callee)] + args))
        if dst and rt.kind != "void":
            return ["%s = %s;" % (dst, call if rt.kind == "int" else "(char *)" + call)]
        return [call + ";"]


def parse_layouts(dump):
    """clang -Xclang -fdump-record-layouts output -> {record: {offset: field}} (depth-1 fields only)"""
    out = {}
    cur = None
    for line in dump.splitlines():
        m = re.match(r"^\s*(\d+) \| (struct|union) (\w+)$", line)
        if m:
            cur = m.group(3) if m.group(2) == "struct" else None
            if cur:
                out[cur] = {}
            continue
        m = re.match(r"^\s*(\d+) \|   (\S.*?)\b(\w+)$", line)
        if m and cur:
            out[cur].setdefault(int(m.group(1)), m.group(3))
        if line.strip().startswith("| [sizeof"):
            cur = None
    return out


def translate(text, only=None, immutable=(), layouts=None):
    global IMMUTABLE, LAYOUTS
    IMMUTABLE = set(immutable)
    LAYOUTS = layouts or {}
    structs, fns = parse_module(text)
    out = ["/* generated by vlib/seqz.py from LLVM IR of the real headers -- do not edit */"]
    names = []
    for fn in fns:
        if only and fn.name not in only:
            continue
        g = Gen(structs, fn)
        out.append(g.emit())
        names.append(fn.name)
    # external declarations for direct callees
    ext = set(re.findall(r"^declare [^@]*@([\w.]+)\(", text, re.M))
    return "\n\n".join(out), names, sorted(ext)


if __name__ == "__main__":
    import sys
    src, names, ext = translate(open(sys.argv[1]).read())
    print(src)
    sys.stderr.write("functions: %s\nexternal: %s\n" % (names, ext))
